#!/usr/bin/env python3
"""keepseed.py <worktree> <name> <caught-by...>: copy a confirmed seeded change into /verif/seeded/<name>/"""
import sys, os, shutil, json
wt, name, caught = sys.argv[1], sys.argv[2], sys.argv[3:]
src = os.path.join(wt, "seeded_out")
dst = os.path.join("/verif/seeded", name)
os.makedirs(dst, exist_ok=True)
for f in os.listdir(src):
    if os.path.isfile(os.path.join(src, f)):
        shutil.copy(os.path.join(src, f), os.path.join(dst, f))
m = json.load(open(os.path.join(src, "meta.json")))
m2 = {"property": m.get("property"), "breaks": m.get("summary"), "needs_to_manifest": m.get("needs_to_manifest"),
      "files_changed": m.get("files_changed"), "author": "independent sub-agent given only the property text and a scratch worktree",
      "confirmed_by_me": "in the scratch worktree: run_demo.sh exits 0 on the unchanged tree and non-zero with patch.diff applied; cargo test --workspace --no-fail-fast --offline passes with the patch (176 lib tests)",
      "agent_notes": m.get("how_verified"), "checks_run": caught}
json.dump(m2, open(os.path.join(dst, "meta.json"), "w"), indent=1)
print("kept", dst)
