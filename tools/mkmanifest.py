#!/usr/bin/env python3
"""Regenerates /verif/MANIFEST.json from the table below (one source of truth for commands)."""
import json, os
V = os.path.dirname(os.path.dirname(os.path.abspath(__file__)))
props = [json.loads(l)["id"] for l in open(os.path.join(V, "properties.jsonl"))]
TRUSTED = "Trusted: TLC, the recording wrappers / hooks of the harness (they log what the library did), the TLA+ oracle definitions in spec/DPModel.tla."
CLAIMS = {
 "C11": ("model_checking", "TLC explores every push/pop/clear history of Fringe.tla over a small alphabet (invariants C11_* with history variables), every transition of the finite fringe-content graph is replayed on the real SimpleFringe and NoDupFringe and each recorded execution (plus seeded random long ones) is validated step by step by TraceFringe.tla (pop is a (ub,value)-maximum of the abstract bag, length, nothing lost/invented, coalescing only for same state and depth with value/path/ub rules).",
         "6.C11", "TLA+ model checking + trace validation of real fringe executions (spec->impl edge cover, impl->spec validation)"),
 "C17": ("model_checking", "Every pair lb<=ub of a grid of isize values is evaluated by the real Solver::gap(); TLC classifies each observation with Gap.tla (order-abstract statement of C17). The space is a grid, enumerated exhaustively.",
         "6.C17", "TLA+ order-abstract specification evaluated by TLC on observations of the real gap() over an exhaustive grid"),
 "C18": ("model_checking", "Sequential: TLC explores all cache histories (C18_Read, C18_Isolation, C18_Monotone with a history variable); every transition of the cache and dominance graphs is replayed on SimpleCache / SimpleDominanceChecker and validated by TraceStores.tla. Concurrent: real-thread phases (2..16 threads) are logged as invocation/response histories and TLC searches a linearisation against the sequential specification (TraceLin.tla), followed by a quiescent read-back.",
         "6.C18", "TLA+ sequential specification + linearisability checking of real-thread histories by TLC"),
}
REASONS = {}
checks = []
for p in props:
    if p in CLAIMS:
        cat, text, ref, tech = CLAIMS[p]
        checks.append({"property_id": p, "quick_cmd": f"python3 tools/check.py {p} quick", "thorough_cmd": f"python3 tools/check.py {p} thorough",
                       "evidence_file": f"/verif/evidence/{p}.json", "replay_cmd_template": f"python3 tools/check.py {p} quick --replay {{path}}",
                       "engine": "tools/check.py", "level_claimed": {"category": cat, "text": text, "design_ref": ref}, "level_note": TRUSTED, "technique": tech})
m = {"version": 1,
     "setup_cmd": "cd /verif/harness && cp -f /repo/Cargo.lock Cargo.lock && CARGO_NET_OFFLINE=true cargo build --offline --bins",
     "hooks": {"guard": "cargo feature xgillard_ddo_verif of crate ddo", "enable": "the harness depends on ddo = { path = \"/repo/ddo\", features = [\"xgillard_ddo_verif\"] }",
               "baseline_off_cmd": "cd /repo && cargo test --workspace --no-fail-fast --offline",
               "source_commits": ["8ad09b1"], "add_only": True},
     "engines": [{"name": "harness", "path": "/verif/harness", "serves_properties": sorted(CLAIMS), "kind_free_text": "Rust crate (path dependency on /repo/ddo with hooks on): model families, recording wrappers, deterministic scheduler, drivers ds/dd/seq/par"},
                 {"name": "spec", "path": "/verif/spec", "serves_properties": sorted(CLAIMS), "kind_free_text": "TLA+ specification suite checked with TLC: generative MC_* configurations and Trace* trace specifications"}],
     "checks": checks,
     "notes": "See DESIGN.md. Exit 2 = tool error (never a verdict). Known findings: known_findings.json.",
     "not_applicable": [{"property_id": p, "reason": REASONS.get(p, "check under construction in this round (see DESIGN.md 12); not claimed yet")} for p in props if p not in CLAIMS]}
json.dump(m, open(os.path.join(V, "MANIFEST.json"), "w"), indent=1)
print("claimed:", sorted(CLAIMS))
