#!/usr/bin/env python3
"""Regenerates /verif/MANIFEST.json from the table below (one source of truth for commands)."""
import json, os
V = os.path.dirname(os.path.dirname(os.path.abspath(__file__)))
props = [json.loads(l)["id"] for l in open(os.path.join(V, "properties.jsonl"))]
TRUSTED = "Trusted: TLC, the recording wrappers / hooks of the harness (they log what the library did), the TLA+ oracle definitions in spec/DPModel.tla."
CLAIMS = {
 "C11": ("model_checking", "TLC explores every push/pop/clear history of Fringe.tla over a small alphabet (invariants C11_* with history variables), every transition of the finite fringe-content graph is replayed on the real SimpleFringe and NoDupFringe and each recorded execution (plus seeded random long ones) is validated step by step by TraceFringe.tla (pop is a (ub,value)-maximum of the abstract bag, length, nothing lost/invented, coalescing only for same state and depth with value/path/ub rules).",
         "6.C11", "TLA+ model checking + trace validation of real fringe executions (spec->impl edge cover, impl->spec validation)"),
 "C17": ("model_checking", "Every pair lb<=ub of a grid of isize values is evaluated by the real Solver::gap(); TLC classifies each observation with Gap.tla (order-abstract statement of C17). The space is a grid, enumerated exhaustively.",
         "6.C17", "TLA+ order-abstract specification evaluated by TLC on observations of the real gap() over an exhaustive grid"),
 "C18": ("model_checking", "Sequential: TLC explores all cache histories (C18_Read, C18_Isolation, C18_Monotone with a history variable); every transition of the cache and dominance graphs is replayed on SimpleCache / SimpleDominanceChecker and validated by TraceStores.tla. Concurrent: real-thread phases (2..16 threads) are logged as invocation/response histories and TLC searches a linearisation against the sequential specification (TraceLin.tla), followed by a quiescent read-back.",
         "6.C18", "TLA+ sequential specification + linearisability checking of real-thread histories by TLC"),
}

SEQTXT = "Real SequentialSolver runs are recorded event by event (fringe, cache, dominance, compilations, outcome) and TLC replays each run through SeqBnB.tla / Fringe.tla / ThresholdCache.tla / DDContract.tla, evaluating the property against the declarative oracle of DPModel.tla (optimum, HStar, feasibility) on the very instance that was solved. "
CLAIMS.update({
 "C01": ("model_checking", SEQTXT + "C01: uninterrupted runs over all configurations terminate (watchdog), report is_exact and the oracle's optimum (no value iff infeasible).", "6.C01", "TLA+ trace validation of real solver runs against SeqBnB/DPModel (oracle = declarative optimum)"),
 "C02": ("model_checking", SEQTXT + "C02: the outcome of every run (uninterrupted, warm-started, cut at every poll index, long-arc) is checked for solution feasibility by replay through DPModel and for value/lb/ub/Completion consistency.", "6.C02", "TLA+ trace validation of solver outcomes against DPModel!FeasibleSolution"),
 "C05": ("model_checking", SEQTXT + "C05: the run is repeated with the cutoff firing at every poll index k=1..K+1; each outcome must satisfy lb <= Opt <= ub, solution feasible with value lb, exact only if optimal.", "6.C05", "cutoff-point enumeration on the real solver + TLA+ trace validation against the oracle"),
 "C06": ("model_checking", "Real compilations (LEL, frontier, pooled) in isolation over instances x reachable roots x widths x incumbents x types x histories; TLC checks each outcome against DDContract.tla (C06 clauses) with the oracle HStar.", "6.C06", "TLA+ contract (DDContract.tla) evaluated by TLC on recorded compilations"),
 "C07": ("model_checking", "As C06, for restricted and exact-mode compilations (C07 clauses of DDContract.tla).", "6.C07", "TLA+ contract (DDContract.tla) evaluated by TLC on recorded compilations"),
 "C08": ("model_checking", "As C06, for the drained cut-sets of inexact relaxed compilations: exactness of each node by replay, progress, bound validity, coverage of every completion that beats incumbent and best exact value (enumerated by TLC).", "6.C08", "TLA+ contract (DDContract.tla) evaluated by TLC on recorded cut-sets"),
 "C09": ("model_checking", SEQTXT + "C09: every configuration is run without and with the cache (and cache+dominance); outcomes must agree and the route monitor C09_RouteExists is evaluated by TLC at every pop on the rebuilt threshold table and fringe.", "6.C09", "TLA+ trace validation with step-wise route invariant over rebuilt cache + fringe state"),
 "C10": ("model_checking", "Component level: TLC explores all query histories of DominanceStore.tla (Pareto/antichain invariants), every transition replayed on SimpleDominanceChecker and validated (verdict, threshold soundness, comparator). Solver level: runs without/with the checker must agree (TraceSeq).", "6.C10", "TLA+ model checking of the store + trace validation of real checker and paired solver runs"),
 "C14": ("model_checking", SEQTXT + "C14: warm starts from the oracle's witness solutions (optimal, worst, sequences of two, ties); set_primal semantics and final value = max(primal, Opt) with is_exact.", "6.C14", "TLA+ trace validation of warm-started runs"),
 "C15": ("model_checking", SEQTXT + "C15: long-arc models, plain diagram vs pooled (cache off/on): termination, same optimum, default-completed solution feasible.", "6.C15", "TLA+ trace validation of paired plain/pooled runs on long-arc models"),
 "C19": ("model_checking", SEQTXT + "C19: cutoff series k=1..K+1; consecutive outcomes must be monotone (lb non-decreasing, ub non-increasing) and the last one exact with both bounds at the optimum.", "6.C19", "cutoff-point enumeration + TLA+ trace validation of consecutive outcomes"),
})
PARTXT = "Real ParallelSolver runs under a deterministic scheduler built on add-only hooks in parallel.rs (every lock acquisition is a scheduling point; random, PCT-style and replayed schedules; cutoff raised at every step of recorded schedules; thread counts changed after construction) and free-running real threads; TLC replays each run through ParBnB.tla / TracePar.tla: snapshot agreement after each lock acquisition, step-wise invariants, and the outcome against the oracle. "
CLAIMS.update({
 "C03": ("model_checking", PARTXT + "C03: every uninterrupted run must be exact with the oracle's optimum.", "6.C03", "deterministic scheduling of the real threads + TLA+ trace validation against ParBnB/DPModel"),
 "C04": ("model_checking", PARTXT + "C04: deadlock = quiescent scheduler state with parked workers and nobody runnable (definitive); worker panic, livelock (step budget), complete-only-when-idle and never-wait-when-nothing-in-progress are checked on every run.", "6.C04", "deterministic scheduling with deadlock detection + TLA+ trace validation of the protocol invariants"),
})
CBTXT = "The recording wrappers log every call into user code; TLC replays the stream through TraceCB.tla, which rebuilds the diagram (layers, node identities in creation order, arcs and costs, last merge, longest-path values) from the callbacks alone and checks each call against that protocol state and against DPModel (dst = Trans(src,d), d in Dom). "
CLAIMS.update({
 "C12": ("model_checking", CBTXT + "C12 tags: next_variable depth, stale variable / state outside layer for domains, decision outside domain, cost args differing from the transition, merge of < 2 or foreign states, relax with wrong merged / dst / arc / cost. Isolated compilations and compilations made during real solver runs (cache, dominance active).", "6.C12", "TLA+ protocol specification (TraceCB.tla) validated on recorded callback streams"),
 "C13": ("model_checking", CBTXT + "C13: for all-impacted models the number of for_each_in_domain calls per layer is compared with max_width (restricted: every layer; relaxed: from the second layer below the root); the width combinators are evaluated on an exhaustive grid against Width.tla.", "6.C13", "TLA+ trace validation of per-layer expansion counts + exhaustive grid for the width combinators"),
 "C20": ("model_checking", CBTXT + "C20: every diagram is drawn for all 64 flag combinations under catch_unwind, a small DOT reader turns each drawing into an event, and TLC compares it with the rebuilt diagram: each non-hidden node exactly once, hidden nodes = deleted nodes, edge set = inbound arcs of drawn nodes with decision and cost, value labels, terminal node and its edges iff the last layer is non-empty, clusters only with the flags.", "6.C20", "TLA+ reference of the expected drawing evaluated by TLC on parsed DOT output"),
})
CLAIMS["C16"] = ("model_checking", "All 12 example binaries are built from the working tree and run on seeded small instances written in their own input formats (widths default/1/2/3 x threads 1/2/4 where honoured, 30 s watchdog); TLC evaluates the declarative optimum of each problem (Examples.tla: brute force over subsets, assignments, subsequences, mark sets, permutations, schedules, written from the problem statements) and TraceExamples.tla compares it with the printed objective; crash, hang, unparsable output and unexpected abort are deviations. TLC's state exploration adds nothing here: the specification is used as an executable, independent oracle.", "6.C16", "TLA+ declarative oracle evaluated by TLC on recorded runs of the example binaries")
REASONS = {}
checks = []
for p in props:
    if p in CLAIMS:
        cat, text, ref, tech = CLAIMS[p]
        checks.append({"property_id": p, "quick_cmd": f"python3 tools/check.py {p} quick", "thorough_cmd": f"python3 tools/check.py {p} thorough",
                       "evidence_file": f"/verif/evidence/{p}.json", "replay_cmd_template": f"python3 tools/check.py {p} quick --replay {{path}}",
                       "engine": "tools/check.py", "level_claimed": {"category": cat, "text": text, "design_ref": ref}, "level_note": TRUSTED, "technique": tech})
m = {"version": 1,
     "setup_cmd": "cd /verif/harness && cp -f /repo/Cargo.lock Cargo.lock && CARGO_NET_OFFLINE=true cargo build --offline --bins && cd /repo && CARGO_NET_OFFLINE=true CARGO_TARGET_DIR=/verif/work/ex_target cargo build --offline --release --examples -p ddo",
     "hooks": {"guard": "cargo feature xgillard_ddo_verif of crate ddo", "enable": "the harness depends on ddo = { path = \"/repo/ddo\", features = [\"xgillard_ddo_verif\"] }",
               "baseline_off_cmd": "cd /repo && cargo test --workspace --no-fail-fast --offline",
               "source_commits": ["8ad09b1"], "add_only": True},
     "engines": [{"name": "harness", "path": "/verif/harness", "serves_properties": sorted(CLAIMS), "kind_free_text": "Rust crate (path dependency on /repo/ddo with hooks on): model families, recording wrappers, deterministic scheduler, drivers ds/dd/seq/par"},
                 {"name": "spec", "path": "/verif/spec", "serves_properties": sorted(CLAIMS), "kind_free_text": "TLA+ specification suite checked with TLC: generative MC_* configurations and Trace* trace specifications"}],
     "checks": checks,
     "notes": "See DESIGN.md. Exit 2 = tool error (never a verdict). Known findings: known_findings.json.",
     "not_applicable": [{"property_id": p, "reason": REASONS.get(p, "check under construction in this round (see DESIGN.md 12); not claimed yet")} for p in props if p not in CLAIMS]}
json.dump(m, open(os.path.join(V, "MANIFEST.json"), "w"), indent=1)
print("claimed:", sorted(CLAIMS))
