#!/usr/bin/env python3
"""Development aid (not a check): a mechanical mutation campaign that measures what the quick checks detect.

Small syntactic mutations (comparison / arithmetic / min-max / boolean operator swaps, dropped statements) are applied, one
at a time, to the library sources in a COPY of the repository (a git worktree of /repo under /tmp, with a copy of /verif next
to it: /repo and /verif themselves are never touched).  A mutant that does not compile, or that the pinned test suite of ddo
already rejects, is discarded.  For each SURVIVOR of the test suite the quick checks of the properties anchored in the mutated
file are run until one of them reports a VIOLATION.  The report lists killed / not-killed survivors; the not-killed ones are
read by hand (equivalent mutant, or a gap in the checks).

usage: tools/mutate.py --copies 4 --n 160 --seed 1 [--files clean.rs,parallel.rs] [--out mutation_report.json]
"""
import json, os, random, re, shutil, subprocess, sys, threading, time, argparse

VERIF = os.path.dirname(os.path.dirname(os.path.abspath(__file__)))
ROOT = "/tmp/verif_mut"
FILES = {
    "ddo/src/implementation/mdd/clean.rs": ["C06", "C07", "C08", "C12", "C13", "C01", "C09", "C20", "C10"],
    "ddo/src/implementation/mdd/pooled.rs": ["C06", "C07", "C08", "C12", "C13", "C15", "C09", "C20", "C01"],
    "ddo/src/implementation/mdd/node_flags.rs": ["C06", "C07", "C08", "C20", "C09"],
    "ddo/src/implementation/solver/sequential.rs": ["C01", "C02", "C05", "C19", "C14", "C09", "C15"],
    "ddo/src/implementation/solver/parallel.rs": ["C03", "C04", "C05", "C02", "C14", "C09"],
    "ddo/src/implementation/fringe/no_duplicate.rs": ["C11", "C19", "C01"],
    "ddo/src/implementation/fringe/simple.rs": ["C11", "C01"],
    "ddo/src/implementation/cache/simple.rs": ["C18", "C09"],
    "ddo/src/implementation/dominance/simple.rs": ["C10", "C18"],
    "ddo/src/implementation/heuristics/width.rs": ["C13"],
    "ddo/src/implementation/heuristics/subproblem_ranking.rs": ["C11", "C01"],
    "ddo/src/abstraction/solver.rs": ["C17"],
    "ddo/src/abstraction/cache.rs": ["C18", "C09"],
    "ddo/src/abstraction/dominance.rs": ["C10"],
    "ddo/src/common.rs": ["C18", "C09", "C02"],
}
# --examples: the shipped example programs (filter: the example's own tests; check: C16)
EXAMPLE_FILES = {}
for _ex, _fs in {"alp": ["model.rs", "dominance.rs"], "lcs": ["model.rs", "dominance.rs"], "max2sat": ["model.rs", "relax.rs"], "mcp": ["model.rs", "relax.rs"], "psp": ["model.rs", "ub_utils.rs"],
                 "sop": ["model.rs", "relax.rs"], "srflp": ["model.rs", "relax.rs"], "talentsched": ["model.rs"], "tsptw": ["model.rs", "relax.rs", "dominance.rs"],
                 "knapsack": ["main.rs"], "misp": ["main.rs"], "golomb": ["main.rs"]}.items():
    for _f in _fs:
        EXAMPLE_FILES[f"ddo/examples/{_ex}/{_f}"] = ["C16"]
OPS = [
    (r"<=", "<"), (r">=", ">"), (r"(?<![<>=!-])<(?![<=])", "<="), (r"(?<![<>=!-])>(?![>=])", ">="), (r"==", "!="), (r"!=", "=="),
    (r"\+ 1\b", "+ 0"), (r"- 1\b", "- 0"), (r"\+ 1\b", "+ 2"), (r"\.min\(", ".max("), (r"\.max\(", ".min("), (r"&&", "||"), (r"\|\|", "&&"),
    (r"\btrue\b", "false"), (r"\bfalse\b", "true"), (r"saturating_add", "saturating_sub"), (r"saturating_sub", "saturating_add"),
    (r"\bis_some\(\)", "is_none()"), (r"\bis_none\(\)", "is_some()"), (r"\bis_empty\(\)", "len() > 0"),
]
DROP = re.compile(r"^\s*(self\.|critical\.|shared\.|node\.|parent\.|\w+\.)[\w\.\[\]\(\)]*\b(clear|push|insert|remove|set_\w+|update_threshold|clear_layer|notify_all|retain|truncate|swap|sort_unstable_by|add_inplace|remove_inplace)\(.*\);\s*$")


def code_lines(text):
    """indices of lines that are library code: not comments, not the test modules, not the instrumentation hooks"""
    out, in_test = [], False
    lines = text.split("\n")
    for i, l in enumerate(lines):
        if re.match(r"\s*#\[cfg\(test\)\]", l):
            in_test = True
        if in_test:
            continue
        st = l.strip()
        if not st or st.startswith("//") or st.startswith("#[") or "verif_hooks" in l or "xgillard_ddo_verif" in l or st.startswith("use ") or "///" in l:
            continue
        if i > 0 and "xgillard_ddo_verif" in lines[i - 1]:
            continue
        out.append(i)
    return out


def candidates(path, text):
    lines = text.split("\n")
    res = []
    for i in code_lines(text):
        l = lines[i]
        code = l.split("//")[0]
        for pat, rep in OPS:
            for m in re.finditer(pat, code):
                # skip generics / lifetimes / arrows / closures for < and >
                if rep in ("<=", ">=") and (re.search(r"(fn |impl|struct |where|->|=>|<'|::<|Vec<|Option<|Arc<|dyn |&'|<T|<State|<D|<C|Result<|Box<|Mutex<)", code)):
                    continue
                new = code[:m.start()] + rep + code[m.end():] + l[len(code):]
                res.append((i, f"{pat} -> {rep}", new))
        if DROP.match(code):
            res.append((i, "drop statement", re.match(r"^\s*", l).group(0) + "// (statement dropped)"))
    return res


def sh(cmd, cwd, env=None, timeout=3600):
    e = dict(os.environ, CARGO_NET_OFFLINE="true")
    if env:
        e.update(env)
    import signal
    p = subprocess.Popen(cmd, cwd=cwd, env=e, stdout=subprocess.PIPE, stderr=subprocess.STDOUT, text=True, start_new_session=True)
    try:
        out, _ = p.communicate(timeout=timeout)
        return p.returncode, out
    except subprocess.TimeoutExpired:
        # a mutant may loop forever: kill the whole process group (cargo + the test binary)
        try:
            os.killpg(p.pid, signal.SIGKILL)
        except ProcessLookupError:
            pass
        p.wait()
        return 124, "timeout"


def setup(i):
    d = os.path.join(ROOT, f"c{i}")
    repo, verif = os.path.join(d, "repo"), os.path.join(d, "verif")
    if not os.path.exists(repo):
        os.makedirs(d, exist_ok=True)
        sh(["git", "-C", "/repo", "worktree", "add", "--detach", repo, "HEAD"], "/")
    shutil.rmtree(verif, ignore_errors=True)
    sh(["rsync", "-a", "--exclude", ".git", "--exclude", "harness/target", "--exclude", "work", "--exclude", "replays", "--exclude", "seeded", VERIF + "/", verif + "/"], "/")
    ct = os.path.join(verif, "harness", "Cargo.toml")
    t = open(ct).read().replace('path = "/repo/ddo"', f'path = "{repo}/ddo"')
    open(ct, "w").write(t)
    os.makedirs(os.path.join(verif, "replays"), exist_ok=True)
    return repo, verif


def worker(i, jobs, results, lock):
    repo, verif = setup(i)
    env = {"VERIF_REPO": repo, "CARGO_TARGET_DIR": os.path.join(ROOT, f"c{i}", "target")}
    # warm builds (library tests + harness)
    sh(["cargo", "test", "--workspace", "--offline", "--no-run"], repo, env)
    sh(["cargo", "build", "--offline", "--bins"], os.path.join(verif, "harness"), {"VERIF_REPO": repo})
    while True:
        with lock:
            if not jobs:
                return
            job = jobs.pop()
        path, line, desc, new = job
        full = os.path.join(repo, path)
        orig = open(full).read()
        lines = orig.split("\n")
        old = lines[line]
        lines[line] = new
        open(full, "w").write("\n".join(lines))
        rec = {"file": path, "line": line + 1, "mutation": desc, "before": old.strip(), "after": new.strip()}
        t0 = time.time()
        try:
            if path.startswith("ddo/examples/"):
                ex = path.split("/")[2]
                rc, out = sh(["cargo", "build", "-p", "ddo", "--offline", "--release", "--example", ex], repo, env, timeout=1800)
                if rc != 0:
                    rec["status"] = "does-not-compile"
                    continue
                rc, out = sh(["cargo", "test", "-p", "ddo", "--offline", "--release", "--example", ex], repo, env, timeout=2400)
                if rc != 0:
                    rec["status"] = "killed-by-the-test-suite"
                    continue
            else:
                rc, out = sh(["cargo", "build", "-p", "ddo", "--offline", "--features", "xgillard_ddo_verif"], repo, env, timeout=900)
                if rc != 0:
                    rec["status"] = "does-not-compile"
                    continue
                rc, out = sh(["cargo", "test", "--workspace", "--no-fail-fast", "--offline"], repo, env, timeout=600)
                if rc != 0:
                    rec["status"] = "killed-by-the-test-suite"
                    continue
            rec["status"] = "survivor"
            rec["checks"] = []
            for cid in FILES[path]:
                t1 = time.time()
                rc, out = sh(["python3", "tools/check.py", cid, "quick"], verif, {"VERIF_REPO": repo}, timeout=3000)
                tag = ""
                m = re.search(r"^  (C\d\d [\w-]+)", out, re.M)
                if m:
                    tag = m.group(1)
                rec["checks"].append({"check": cid, "rc": rc, "tag": tag, "s": round(time.time() - t1)})
                if rc == 1:
                    rec["status"] = "survivor-killed"
                    rec["killed_by"] = cid
                    rec["tag"] = tag
                    break
            else:
                rec["status"] = "survivor-not-killed"
        finally:
            open(full, "w").write(orig)
            rec["wall_s"] = round(time.time() - t0)
            with lock:
                results.append(rec)
                print(f"[c{i}] {rec['status']:26s} {path.split('/')[-1]}:{rec['line']} {desc}  {rec.get('killed_by', '')} {rec.get('tag', '')}", flush=True)


def main():
    ap = argparse.ArgumentParser()
    ap.add_argument("--copies", type=int, default=4)
    ap.add_argument("--n", type=int, default=100)
    ap.add_argument("--seed", type=int, default=1)
    ap.add_argument("--files", default="")
    ap.add_argument("--examples", action="store_true")
    ap.add_argument("--root", default="")
    ap.add_argument("--out", default=os.path.join(VERIF, "mutation_report.json"))
    a = ap.parse_args()
    if a.root:
        global ROOT
        ROOT = a.root
    r = random.Random(a.seed)
    allc = []
    if a.examples:
        FILES.clear()
        FILES.update(EXAMPLE_FILES)
    for path in FILES:
        if a.files and not any(f in path for f in a.files.split(",")):
            continue
        text = open(os.path.join("/repo", path)).read()
        cs = candidates(path, text)
        allc += [(path, i, d, n) for i, d, n in cs]
    r.shuffle(allc)
    # at most one mutation per (file, line)
    seen, jobs = set(), []
    for c in allc:
        if (c[0], c[1]) in seen:
            continue
        seen.add((c[0], c[1]))
        jobs.append(c)
        if len(jobs) >= a.n:
            break
    print(f"{len(allc)} candidate mutations, {len(jobs)} selected", flush=True)
    results, lock = [], threading.Lock()
    ths = [threading.Thread(target=worker, args=(i, jobs, results, lock)) for i in range(a.copies)]
    for t in ths:
        t.start()
    for t in ths:
        t.join()
    summ = {}
    for x in results:
        summ[x["status"]] = summ.get(x["status"], 0) + 1
    json.dump({"seed": a.seed, "summary": summ, "mutants": sorted(results, key=lambda x: (x["file"], x["line"]))}, open(a.out, "w"), indent=1)
    print(summ)
    for i in range(a.copies):
        d = os.path.join(ROOT, f"c{i}")
        sh(["git", "-C", "/repo", "worktree", "remove", "--force", os.path.join(d, "repo")], "/")
    shutil.rmtree(ROOT, ignore_errors=True)


if __name__ == "__main__":
    main()
