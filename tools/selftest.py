#!/usr/bin/env python3
"""Demonstrates that the specification is bound to the code (never part of a verdict):
 (i)  trace corruption: one recorded field is changed / one event removed in a trace of the unchanged tree, and the
      trace specification must reject it with the expected tag;
 (ii) seeded model variants: the invariants of the generative models must be violated by them.
Writes selftest_report.json."""
import json, os, sys, copy
sys.path.insert(0, os.path.dirname(os.path.abspath(__file__)))
from vlib import *


def write(evs, path):
    with open(path, "w") as f:
        for e in evs:
            f.write(json.dumps(e) + "\n")


def tags(module, cfg, path, dfs=False):
    res, r = validate(module, cfg, path, dfs=dfs)
    if "devs" in res:
        return sorted({d[0] for d in res["devs"]})
    return ["accepted"] if res.get("furthest", 0) >= res["total"] else [f"rejected-at-{res['furthest']}"]


def first(evs, pred, skip=0):
    idx = [i for i, e in enumerate(evs) if pred(e)]
    return idx[min(skip, len(idx) - 1)]


def main():
    w = workdir("selftest")
    report = []

    def case(name, module, cfg, evs, mutate, expect, dfs=False):
        base = os.path.join(w, name + "_base.ndjson")
        write(evs, base)
        t0 = tags(module, cfg, base, dfs)
        ev2 = copy.deepcopy(evs)
        ev2 = mutate(ev2) or ev2
        mut = os.path.join(w, name + "_mut.ndjson")
        write(ev2, mut)
        t1 = tags(module, cfg, mut, dfs)
        ok = (t0 in ([], ["accepted"])) and any(any(x in t for x in expect) for t in t1)
        report.append({"case": name, "trace_spec": module, "unchanged_trace": t0, "corrupted_trace": t1, "expected_one_of": expect, "ok": ok})
        print(("ok   " if ok else "FAIL ") + name, t1)

    # ---- fringe
    tr = os.path.join(w, "fr.ndjson")
    run_bin("ds", ["fringe", "--kind", "nodup", "--random", 5, "--len", 60, "--seed", 3, "--out", tr])
    evs = read_ndjson(tr)
    def m1(e):
        i = first(e, lambda x: x["ev"] == "pop", 3)
        e[i]["node"]["ub"] += 1
    case("fringe_popped_ub_changed", "TraceFringe", "TraceFringe.cfg", evs, m1, ["C11"])
    def m2(e):
        del e[first(e, lambda x: x["ev"] == "push", 2)]
    case("fringe_push_event_removed", "TraceFringe", "TraceFringe.cfg", evs, m2, ["C11"])
    # ---- stores
    tr = os.path.join(w, "st.ndjson")
    run_bin("ds", ["stores", "--uv", "true", "--random", 3, "--len", 120, "--seed", 3, "--out", tr])
    evs = read_ndjson(tr)
    def m3(e):
        i = first(e, lambda x: x["ev"] == "cget" and x["ret"][0] > -1000000, 1)
        e[i]["ret"][0] += 1
    case("cache_read_value_changed", "TraceStores", "TraceStores.cfg", evs, m3, ["C18 read"])
    def m4(e):
        i = first(e, lambda x: x["ev"] == "dquery" and x["dominated"], 1)
        e[i]["dominated"] = False
    case("dominance_verdict_flipped", "TraceStores", "TraceStores.cfg", evs, m4, ["C10 verdict"])
    # ---- linearisability
    tr = os.path.join(w, "lin.ndjson")
    run_bin("ds", ["lin", "--phases", 20, "--threads", 4, "--seed", 3, "--out", tr])
    evs = read_ndjson(tr)
    def m5(e):
        i = first(e, lambda x: x["ev"] == "res" and "ret" in x and x["ret"][0] > -1000000, 2)
        e[i]["ret"][0] += 5
    case("concurrent_read_result_changed", "TraceLin", "TraceLin.cfg", evs, m5, ["rejected"], dfs=True)
    # ---- diagram outcome
    tr = os.path.join(w, "dd.ndjson")
    run_bin("dd", ["--seed", 3, "--instances", 6, "--per-instance", 12, "--family", "allimpacted", "--out", tr])
    evs = read_ndjson(tr)
    def m6(e):
        i = first(e, lambda x: x["ev"] == "compiled" and x.get("ok") and x["type"] == "relaxed" and x["bv"] > -1000000, 2)
        e[i]["bv"] -= 50
    case("relaxed_bound_lowered", "TraceDD", "TraceDD.cfg", evs, m6, ["C06"])
    def m7(e):
        i = first(e, lambda x: x["ev"] == "cutset" and x["nodes"], 0)
        e[i]["nodes"][0]["depth"] = 0
    case("cutset_node_depth_changed", "TraceDD", "TraceDD.cfg", evs, m7, ["C08"])
    # ---- callbacks and drawings
    tr = os.path.join(w, "cb.ndjson")
    run_bin("dd", ["--seed", 4, "--instances", 4, "--per-instance", 6, "--family", "allimpacted", "--callbacks", "--viz", "--out", tr])
    evs = read_ndjson(tr)
    def m8(e):
        i = first(e, lambda x: x["ev"] == "cb" and x["f"] == "relax", 0)
        e[i]["cost"] += 1
    case("relax_cost_argument_changed", "TraceCB", "TraceCB.cfg", evs, m8, ["C12"])
    def m9(e):
        i = first(e, lambda x: x["ev"] == "viz" and len(x["edges"]) > 2, 3)
        e[i]["edges"][1]["cost"] += 1
    case("drawn_edge_cost_changed", "TraceCB", "TraceCB.cfg", evs, m9, ["C20"])
    def m10(e):
        i = first(e, lambda x: x["ev"] == "cb" and x["f"] == "next_variable" and x["depth"] > 0, 1)
        e[i]["depth"] += 1
    case("next_variable_depth_changed", "TraceCB", "TraceCB.cfg", evs, m10, ["C12 next-variable-depth"])
    # ---- sequential solver
    tr = os.path.join(w, "seq.ndjson")
    run_bin("seq", ["--seed", 3, "--instances", 8, "--mode", "cache", "--maxn", 6, "--out", tr])
    evs = read_ndjson(tr)
    def m11(e):
        i = first(e, lambda x: x["ev"] == "return" and x["has_value"], 1)
        e[i]["best_value"] -= 1
    case("returned_value_changed", "TraceSeq", "TraceSeq.cfg", evs, m11, ["C01", "C02"])
    def m12(e):
        i = first(e, lambda x: x["ev"] == "return" and x["has_value"], 2)
        e[i]["sol"]["decs"][0][1] = 7
    case("returned_solution_changed", "TraceSeq", "TraceSeq.cfg", evs, m12, ["C02"])
    def m13(e):
        cache_on, cands = False, []
        for i, x in enumerate(e):
            if x["ev"] == "reset":
                cache_on = x["cache"] and x["level"] == "full"
            elif cache_on and x["ev"] == "cupd" and x["explored"] is False and x["value"] < 1000:
                cands.append(i)
        i = cands[min(4, len(cands) - 1)]
        e[i]["explored"] = True
        e[i]["value"] += 100
    case("threshold_write_inflated", "TraceSeq", "TraceSeq.cfg", evs, m13, ["C18 read", "C09"])
    # ---- parallel solver (hooks)
    tr = os.path.join(w, "par.ndjson")
    if os.path.exists(tr):
        os.remove(tr)
    run_bin("par", ["--seed", 3, "--instances", 8, "--mode", "sched", "--maxn", 6, "--per-instance", 3, "--threads", 3, "--out", tr])
    evs = read_ndjson(tr)
    def m14(e):
        i = first(e, lambda x: x["ev"] == "locked" and x["site"] == "finish", 2)
        e[i]["ongoing"] += 1
    case("hook_snapshot_ongoing_changed", "TracePar", "TracePar.cfg", evs, m14, ["DIV snapshot-ongoing"])
    def m15(e):
        i = first(e, lambda x: x["ev"] == "workload" and x["what"] == "complete", 0)
        j = max(k for k in range(i) if e[k]["ev"] == "locked")
        e[j]["ongoing"] = 1
    case("complete_declared_with_node_in_progress", "TracePar", "TracePar.cfg", evs, m15, ["C04 complete-while-work-remains"])
    def m16(e):
        del e[first(e, lambda x: x["ev"] == "locked" and x["site"] == "finish", 1)]
    case("hook_event_removed", "TracePar", "TracePar.cfg", evs, m16, ["DIV"])
    # ---- seeded model variants
    for v, inv in (("d4a", "C05_BoundsSound"), ("notify_one", "C04_NeverWaitWhenIdle"), ("no_ongoing", "C04_CompleteOnlyWhenIdle")):
        r = tlc("MC_ParBnB", f"SELF_ParBnB_{v}.cfg", workers=4, timeout=900)
        viol = [x for t in r["violated"] for x in t if x]
        ok = inv in viol
        report.append({"case": f"model_variant_{v}", "spec": "MC_ParBnB", "violated": viol, "expected": inv, "ok": ok})
        print(("ok   " if ok else "FAIL ") + f"model variant {v}", viol)
    # ---- composed parallel caching search: seeded variants
    tr = os.path.join(w, "parc.ndjson")
    run_bin("dd", ["--seed", 1078, "--instances", 120, "--per-instance", 1, "--family", "reconv", "--dd", "lel", "--out", tr])
    insts = [e["inst"] for e in read_ndjson(tr) if e["ev"] == "reset" and e["inst"]["family"] in ("lifted", "knapsack") and e["inst"]["n"] <= 6][:60]
    f = os.path.join(w, "parc_insts.json")
    json.dump(insts, open(f, "w"))
    for v, inv in (("strict_must_explore", "C09_RouteExists"), ("wait_on_skipped_all", "C04_NoLostWakeup")):
        r = tlc("MC_ParC", f"SELF_ParC_{v}.cfg", workers=8, timeout=1800, env={"INSTS": f})
        viol = [x for t in r["violated"] for x in t if x]
        ok = inv in viol
        report.append({"case": f"model_variant_parc_{v}", "spec": "MC_ParC", "violated": viol, "expected": inv, "ok": ok})
        print(("ok   " if ok else "FAIL ") + f"model variant ParC {v}", viol)
    json.dump(report, open(os.path.join(VERIF, "selftest_report.json"), "w"), indent=1)
    bad = [r for r in report if not r["ok"]]
    print(f"{len(report) - len(bad)}/{len(report)} cases behave as expected")
    return 0 if not bad else 2


if __name__ == "__main__":
    sys.exit(main())
