"""Diagram-level checks (engine `dd`): C06, C07, C08 (contract, outcome level), later C12, C13, C20."""
import json, os
from vlib import *

D5_SIG = "pooled-longarcs-root-in-cutset"


def dd_signature(tag, reset):
    """the known-finding signature of a deviation, if it has one"""
    if reset["dd"] == "pooled" and reset["inst"]["long_arcs"] and tag in ("C08 no-progress", "C08 not-covered"):
        return D5_SIG
    return None


def dd_runs(chk, w, tier, families, extra=None, module="TraceDD", cfg="TraceDD.cfg", insts=None, per=None, name="dd"):
    thorough = tier == "thorough"
    batches = []
    nb = 1 if not thorough else 12
    for b in range(nb):
        for fam in families:
            tr = os.path.join(w, f"{name}_{fam}_{b}.ndjson")
            args = ["--seed", SEED * 1000 + b, "--instances", insts or (350 if not thorough else 500), "--per-instance", per or 25, "--family", fam, "--out", tr] + (extra or [])
            run_bin("dd", args)
            batches.append((tr, args))
    total = 0
    from concurrent.futures import ThreadPoolExecutor
    def val(x):
        tr, args = x
        return x, validate(module, cfg, tr, name=f"{chk.pid}_{os.path.basename(tr)}")
    with ThreadPoolExecutor(max_workers=6) as ex:
        results = list(ex.map(val, batches))
    for (tr, args), (res, r) in results:
        evs = read_ndjson(tr)
        if res["total"] != len(evs):
            raise ToolError("trace length mismatch")
        runs = split_runs(evs)
        resets = {rr[0]["run"]: rr[0] for rr in runs}
        chk.cov["states"] += r["states"]
        chk.cov["transitions"] += len(evs)
        ncomp = sum(1 for e in evs if e["ev"] == "compiled")
        chk.cov["evaluations"] += ncomp
        chk.cov["traces_validated_against_impl"] += len(runs)
        total += ncomp
        yield_stats(chk, evs)
        for tag, line, run in [(d[0], d[1], d[2]) for d in res["devs"]]:
            if tag.startswith("HARNESS"):
                raise ToolError(f"ill-formed generated instance in {tr} run {run}: the harness is wrong, not the library")
            reset = resets[run]
            # replay = the instance, the diagram type, and the compilation group around the failing line
            grp = evs[max(0, line - 4):line]
            chk.violation(tag, {"engine": "dd", "args": [str(a) for a in args], "run": run, "dd": reset["dd"], "inst": reset["inst"], "events": grp, "line": line},
                          f"{tag}: {reset['dd']} diagram, family {reset['inst']['family']} long_arcs={reset['inst']['long_arcs']}, events {json.dumps(grp)[:600]}",
                          signature=dd_signature(tag, reset))
    return total


def yield_stats(chk, evs):
    st = chk.cov.setdefault("compilations", {})
    cur = None
    seen = chk.__dict__.setdefault("_seen", set())
    for e in evs:
        if e["ev"] == "compile":
            cur = e
        elif e["ev"] == "compiled" and e.get("ok"):
            k = f"{cur['type']}/{'exact' if e['exact'] else 'inexact'}"
            st[k] = st.get(k, 0) + 1
            if not e["exact"] or cur["type"] == "exact":
                key = json.dumps([cur["root"]["st"], cur["root"]["depth"], cur["width"], cur["best_lb"], cur["type"], e["bv"]])
                if key not in seen:
                    seen.add(key)
                    chk.cov["distinct_nontrivial"] += 1
        elif e["ev"] == "cutset" and e["nodes"]:
            st["cutsets_nonempty"] = st.get("cutsets_nonempty", 0) + 1


RULE = ("compilations of the real Mdd<LEL>, Mdd<FRONTIER>, Pooled in isolation (EmptyCache, EmptyDominanceChecker) over seeded instances of the lifted table / knapsack / "
        "set-packing families (negative costs, ties, dead ends, depth-free states, long arcs, dynamic variable order) x reachable exact sub-problem roots x widths 1..5 x "
        "incumbents {none, opt-k, opt-1, opt, opt+1} x {exact, restricted, relaxed}, one diagram object re-used for a whole run (history); every outcome checked by TLC "
        "against DDContract.tla with the oracle of DPModel.tla; non-trivial = inexact (squashed) diagram or exact-mode compilation; distinct = distinct (root, width, lb, type, value)")


def make(pid, fams):
    def f(tier, replay):
        chk = Check(pid, tier)
        w = workdir(pid)
        if replay:
            rp = json.load(open(replay))["replay"]
            inst = os.path.join(w, "inst.json")
            json.dump([rp["inst"]], open(inst, "w"))
            a = rp["args"]
            seed = a[a.index("--seed") + 1]
            tr = os.path.join(w, "replay.ndjson")
            run_bin("dd", ["--seed", seed, "--inst-file", inst, "--dd", rp["dd"], "--per-instance", 400, "--out", tr])
            res, r = validate("TraceDD", "TraceDD.cfg", tr)
            evs = read_ndjson(tr)
            for d in res["devs"]:
                chk.violation(d[0], {"engine": "dd", "args": a, "dd": rp["dd"], "inst": rp["inst"], "events": evs[max(0, d[1] - 4):d[1]]}, f"{d[0]} (replay)", signature=dd_signature(d[0], evs[0]))
            chk.cov.update({"evaluations": 400, "distinct_nontrivial": 2, "samples": [evs[1]]})
            return chk.finish()
        dd_runs(chk, w, tier, fams)
        evs = read_ndjson(os.path.join(w, f"dd_{fams[0]}_0.ndjson"))
        k = next(i for i, e in enumerate(evs) if e["ev"] == "compiled" and e.get("ok") and not e["exact"])
        chk.cov["samples"] = [{"instance": evs[0]["inst"]}, {"compilation": evs[k - 1:k + 2]}]
        chk.cov["rule"] = RULE
        chk.assumptions = ["generated instances satisfy WellFormed (checked by TLC on every instance: HStar monotone in the merge order, slack >= 0)",
                           "the oracle HStar is the declarative max over all completions, computed by TLC"]
        return chk.finish()
    return f


CHECKS = {"C06": make("C06", ["allimpacted", "longarcs"]), "C07": make("C07", ["allimpacted", "longarcs"]), "C08": make("C08", ["allimpacted", "longarcs"])}
