"""Diagram-level checks (engine `dd`): C06, C07, C08 (contract, outcome level), later C12, C13, C20."""
import json, os
from vlib import *

D5_SIG = "pooled-longarcs-root-in-cutset"


def dd_signature(tag, reset):
    """the known-finding signature of a deviation, if it has one"""
    if reset["dd"] == "pooled" and reset["inst"]["long_arcs"] and tag in ("C08 no-progress", "C08 not-covered"):
        return D5_SIG
    return None


def dd_runs(chk, w, tier, families, extra=None, module="TraceDD", cfg="TraceDD.cfg", insts=None, per=None, name="dd"):
    thorough = tier == "thorough"
    batches = []
    nb = 1 if not thorough else 16
    for b in range(nb):
        for fam in families:
            tr = os.path.join(w, f"{name}_{fam}_{b}.ndjson")
            # --sweep k: k times more compilations per instance, unlogged unless the engine's numeric pre-filter finds their values suspect
            # (selection only: every logged compilation is judged by TLC against DDContract)
            args = ["--seed", SEED * 1000 + b, "--instances", insts or (350 if not thorough else 500), "--per-instance", per or 25, "--family", fam, "--sweep", 12, "--out", tr] + (extra or [])
            run_bin("dd", args)
            batches.append((tr, args))
            chk.cov["sweep_compilations_prefiltered_not_logged"] = chk.cov.get("sweep_compilations_prefiltered_not_logged", 0) + 3 * args[3] * args[5] * 12
    total = 0
    from concurrent.futures import ThreadPoolExecutor
    def val(x):
        tr, args = x
        return x, validate(module, cfg, tr, name=f"{chk.pid}_{os.path.basename(tr)}")
    with ThreadPoolExecutor(max_workers=6) as ex:
        results = list(ex.map(val, batches))
    for (tr, args), (res, r) in results:
        evs = read_ndjson(tr)
        if res["total"] != len(evs):
            raise ToolError("trace length mismatch")
        runs = split_runs(evs)
        resets = {rr[0]["run"]: rr[0] for rr in runs}
        chk.cov["states"] += r["states"]
        chk.cov["transitions"] += len(evs)
        ncomp = sum(1 for e in evs if e["ev"] == "compiled")
        chk.cov["evaluations"] += ncomp
        chk.cov["traces_validated_against_impl"] += len(runs)
        total += ncomp
        yield_stats(chk, evs)
        for tag, line, run in [(d[0], d[1], d[2]) for d in res["devs"]]:
            if tag.startswith("HARNESS"):
                raise ToolError(f"ill-formed generated instance in {tr} run {run}: the harness is wrong, not the library")
            if tag.startswith("DIV"):
                chk.cov["divergences"] += 1
                log(f"  divergence (no verdict): {tag} at line {line} of {os.path.basename(tr)}")
                continue
            reset = resets[run]
            # replay = the instance, the diagram type, and the compilation group around the failing line
            grp = evs[max(0, line - 4):line]
            chk.violation(tag, {"engine": "dd", "args": [str(a) for a in args], "run": run, "dd": reset["dd"], "inst": reset["inst"], "events": grp, "line": line},
                          f"{tag}: {reset['dd']} diagram, family {reset['inst']['family']} long_arcs={reset['inst']['long_arcs']}, events {json.dumps(grp)[:600]}",
                          signature=dd_signature(tag, reset))
    return total


def yield_stats(chk, evs):
    st = chk.cov.setdefault("compilations", {})
    cur = None
    seen = chk.__dict__.setdefault("_seen", set())
    for e in evs:
        if e["ev"] == "compile":
            cur = e
        elif e["ev"] == "compiled" and e.get("ok"):
            k = f"{cur['type']}/{'exact' if e['exact'] else 'inexact'}"
            st[k] = st.get(k, 0) + 1
            if not e["exact"] or cur["type"] == "exact":
                key = json.dumps([cur["root"]["st"], cur["root"]["depth"], cur["width"], cur["best_lb"], cur["type"], e["bv"]])
                if key not in seen:
                    seen.add(key)
                    chk.cov["distinct_nontrivial"] += 1
        elif e["ev"] == "cutset" and e["nodes"]:
            st["cutsets_nonempty"] = st.get("cutsets_nonempty", 0) + 1


RULE = ("compilations of the real Mdd<LEL>, Mdd<FRONTIER>, Pooled in isolation (EmptyCache, EmptyDominanceChecker) over seeded instances of the lifted table / knapsack / "
        "set-packing families (negative costs, ties, dead ends, depth-free states, long arcs, dynamic variable order) x reachable exact sub-problem roots x widths 1..5 x "
        "incumbents {none, opt-k, opt-1, opt, opt+1} x {exact, restricted, relaxed}, one diagram object re-used for a whole run (history); every outcome checked by TLC "
        "against DDContract.tla with the oracle of DPModel.tla; non-trivial = inexact (squashed) diagram or exact-mode compilation; distinct = distinct (root, width, lb, type, value)")


def mc_dd_part(chk, w, tier):
    """the specification alone: DD.tla (generative model of _compile) checked by TLC against the contract, the width bound and the arc protocol
    on every instance x reachable root x type x width x incumbent x cut-set type x tie-break"""
    thorough = tier == "thorough"
    tr = os.path.join(w, "mc_insts.ndjson")
    run_bin("dd", ["--seed", SEED * 1000 + 99, "--instances", 60 if not thorough else 300, "--per-instance", 1, "--family", "allimpacted", "--dd", "lel", "--out", tr])
    insts = [e["inst"] for e in read_ndjson(tr) if e["ev"] == "reset" and e["inst"]["family"] in ("lifted", "knapsack") and e["inst"]["n"] <= 4 and e["inst"]["b"] <= 4]
    insts = insts[: (8 if not thorough else 40)]
    f = os.path.join(w, "mc_dd_insts.json")
    json.dump(insts, open(f, "w"))
    r = mc("DD", "MC_DD.cfg", workers=8, env={"INSTS": f}, timeout=3600, require_actions=False, coverage=thorough)
    chk.add_mc("MC_DD.cfg", r, constants=f"Widths = {{1,2,3}} Cuts = {{lel, fc}}; {len(insts)} generated instances (n <= 4, <= 4 base states / capacity <= 9), every reachable exact root, 3 types, 4 incumbents")


def dd_model_conformance(chk, w, tier, module="DD", cfg="MC_DD_emit.cfg", insts_file="mc_dd_insts.json", force_cut=None, tagname="dd_model"):
    """spec -> impl for the diagram model: TLC enumerates every (input, outcome) pair of DD.tla (all tie-breaks); the real Mdd<LEL>/Mdd<FRONTIER>
    compile the same inputs; each real outcome must be among the model's outcomes for that input. A mismatch is a divergence between model
    and code (reported, counted) -- the verdicts of C06-C08 come from the contract, which both must satisfy."""
    import re as _re
    f = os.path.join(w, insts_file)
    insts = json.load(open(f))[:4 if tier == "quick" else 12]
    f2 = os.path.join(w, tagname + "_emit_insts.json")
    json.dump(insts, open(f2, "w"))
    r = tlc(module, cfg, env={"INSTS": f2}, workers=4, timeout=3600, heap="6g")
    if "No error has been found" not in r["out"]:
        log(r["out"][-2000:])
        raise ToolError(f"{cfg} failed")
    outs = [json.loads(bytes(x, "utf-8").decode("unicode_escape")) for x in _re.findall(r'<<"OUT", "(.*)">>', r["out"])]
    by = {}
    for o in outs:
        key = json.dumps([o["ii"], o["cut"], o["type"], o["width"], o["lb"], o["root"]], sort_keys=True)
        # an exact relaxed diagram is not drained by the solvers (nor by the engine): its cut-set is not part of the outcome
        by.setdefault(key, []).append(json.dumps({"exact": o["exact"], "bv": o["bv"], "bev": o["bev"], "cs": [] if o["exact"] else sorted(o["cs"], key=lambda c: json.dumps(c, sort_keys=True)),
                                                  "cu": sorted(o["cu"], key=lambda c: json.dumps(c, sort_keys=True))}, sort_keys=True))
    keys = sorted(by)
    inputs = []
    for k in keys:
        ii, cut, ty, width, lb, root = json.loads(k)
        inputs.append({"inst": insts[ii - 1], "cut": force_cut or cut, "type": ty, "width": width, "lb": lb, "root": root})
    fi, fo = os.path.join(w, tagname + "_inputs.json"), os.path.join(w, tagname + "_outcomes.json")
    json.dump(inputs, open(fi, "w"))
    run_bin("dd", ["--inputs", fi, "--out", fo])
    real = json.load(open(fo))
    match, miss = 0, []
    for k, o in zip(keys, real):
        # (the model's cut-set is a SET of projected sub-problems: two real sub-problems that differ by their path only count once)
        proj = {json.dumps({"x": c["x"], "depth": c["depth"], "value": c["value"], "ub": c["ub"]}, sort_keys=True) for c in o["cs"]}
        o2 = json.dumps({"exact": o["exact"], "bv": o["bv"], "bev": o["bev"], "cs": sorted([json.loads(x) for x in proj], key=lambda c: json.dumps(c, sort_keys=True)),
                         "cu": sorted(o["cu"], key=lambda c: json.dumps(c, sort_keys=True))}, sort_keys=True)
        if o2 in by[k]:
            match += 1
        else:
            strip = lambda x: {kk: vv for kk, vv in json.loads(x).items() if kk != "cu"}
            only_cu = strip(o2) in [strip(x) for x in by[k]]
            miss.append({"input": json.loads(k), "thresholds_only": only_cu, "real": json.loads(o2), "model": [json.loads(x) for x in by[k]][:3]})
    chk.cov[tagname + "_inputs_replayed_on_real_compilers"] = len(keys)
    chk.cov[tagname + "_outcome_sets_containing_the_real_outcome"] = match
    chk.cov[tagname + "_mismatches"] = miss[:5]
    chk.cov["divergences"] += len(miss)
    for m in miss[:3]:
        log(f"  divergence (no verdict): real compiler outcome not among DD.tla's outcomes: {json.dumps(m)[:700]}")
    chk.add_mc(cfg, r, constants=f"Widths = {{1,2}}; {len(insts)} instances; {len(outs)} (input, outcome) pairs emitted")


def mc_ddpooled_part(chk, w, tier):
    """pooled.rs on the specification (DDPooled.tla, long-arc models): the whole contract with the repaired drain_cutset (D5);
    the model of the code before the repair (Repaired = FALSE) must reproduce the defect"""
    thorough = tier == "thorough"
    tr = os.path.join(w, "mc_pooled_insts.ndjson")
    run_bin("dd", ["--seed", SEED * 1000 + 98, "--instances", 200 if not thorough else 800, "--per-instance", 1, "--family", "longarc", "--dd", "pooled", "--out", tr])
    insts = [e["inst"] for e in read_ndjson(tr) if e["ev"] == "reset" and e["inst"]["family"] == "lifted" and e["inst"]["n"] <= 5 and e["inst"]["b"] <= 3]
    insts = insts[: (12 if not thorough else 60)]
    f = os.path.join(w, "mc_pooled_insts.json")
    json.dump(insts, open(f, "w"))
    r = mc("DDPooled", "MC_DDPooled.cfg", workers=8, env={"INSTS": f}, timeout=3600, require_actions=False, coverage=thorough)
    chk.add_mc("MC_DDPooled.cfg", r, constants=f"Widths = {{1,2}}; {len(insts)} depth-free long-arc instances (n <= 5, <= 3 base states); PContract (DDContract on the drained cut-set), C13_Width, C12_Arcs")
    if chk.pid == "C08":
        r2 = tlc("DDPooled", "MC_DDPooled_D5.cfg", env={"INSTS": f}, workers=4, timeout=1800)
        chk.cov["defect_D5_reproduced_on_the_model_of_the_unrepaired_code"] = "C08_Progress is violated" in r2["out"] or bool(r2["violated"])


def make(pid, fams):
    def f(tier, replay):
        chk = Check(pid, tier)
        w = workdir(pid)
        if replay:
            rp = json.load(open(replay))["replay"]
            inst = os.path.join(w, "inst.json")
            json.dump([rp["inst"]], open(inst, "w"))
            a = rp["args"]
            seed = a[a.index("--seed") + 1]
            tr = os.path.join(w, "replay.ndjson")
            run_bin("dd", ["--seed", seed, "--inst-file", inst, "--dd", rp["dd"], "--per-instance", 400, "--out", tr])
            res, r = validate("TraceDD", "TraceDD.cfg", tr)
            evs = read_ndjson(tr)
            for d in res["devs"]:
                chk.violation(d[0], {"engine": "dd", "args": a, "dd": rp["dd"], "inst": rp["inst"], "events": evs[max(0, d[1] - 4):d[1]]}, f"{d[0]} (replay)", signature=dd_signature(d[0], evs[0]))
            chk.cov.update({"evaluations": 400, "distinct_nontrivial": 2, "samples": [evs[1]]})
            return chk.finish()
        mc_dd_part(chk, w, tier)
        mc_ddpooled_part(chk, w, tier)
        if pid == "C06":
            dd_model_conformance(chk, w, tier)
            dd_model_conformance(chk, w, tier, module="DDPooled", cfg="MC_DDPooled_emit.cfg", insts_file="mc_pooled_insts.json", force_cut="pooled", tagname="ddpooled_model")
            # pooled.rs on the models WITHOUT long arcs (its own relaxation guard, pool and threshold code): same instances as DD.tla
            dd_model_conformance(chk, w, tier, module="DDPooled", cfg="MC_DDPooled_emit.cfg", insts_file="mc_dd_insts.json", force_cut="pooled", tagname="ddpooled_allimpacted")
        dd_runs(chk, w, tier, fams)
        evs = read_ndjson(os.path.join(w, f"dd_{fams[0]}_0.ndjson"))
        k = next(i for i, e in enumerate(evs) if e["ev"] == "compiled" and e.get("ok") and not e["exact"])
        chk.cov["samples"] = [{"instance": evs[0]["inst"]}, {"compilation": evs[k - 1:k + 2]}]
        chk.cov["rule"] = RULE
        chk.assumptions = ["generated instances satisfy WellFormed (checked by TLC on every instance: HStar monotone in the merge order, slack >= 0)",
                           "the oracle HStar is the declarative max over all completions, computed by TLC"]
        return chk.finish()
    return f


def cb_check(pid, plans, rule, viz=False):
    """plans: list of (family, instances_q, instances_t, per_instance, extra)"""
    def f(tier, replay):
        chk = Check(pid, tier)
        w = workdir(pid)
        thorough = tier == "thorough"
        if replay:
            rp = json.load(open(replay))["replay"]
            inst = os.path.join(w, "inst.json")
            json.dump([rp["inst"]], open(inst, "w"))
            a = rp["args"]
            seed = a[a.index("--seed") + 1]
            tr = os.path.join(w, "replay.ndjson")
            run_bin("dd", ["--seed", seed, "--inst-file", inst, "--dd", rp["dd"], "--per-instance", 60, "--callbacks", "--out", tr] + (["--viz"] if viz else []))
            res, r = validate("TraceCB", "TraceCB.cfg", tr, heap="6g")
            evs = read_ndjson(tr)
            for d in res["devs"]:
                chk.violation(d[0], {"engine": "dd", "args": a, "dd": rp["dd"], "inst": rp["inst"], "event": evs[d[1] - 1] if not viz else {k: evs[d[1] - 1].get(k) for k in ("ev", "cfg", "f")}}, f"{d[0]} (replay)")
            chk.cov.update({"evaluations": 60, "distinct_nontrivial": 2, "samples": [evs[1]]})
            return chk.finish()
        first = None
        for i, (fam, nq, nt, per, extra) in enumerate(plans):
            for _ in dd_runs_cb(chk, w, tier, fam, nt if thorough else nq, per, ["--callbacks"] + (["--viz"] if viz else []) + list(extra), f"cb{i}"):
                pass
        if pid in ("C12", "C13"):
            # the compilations made while really solving (cache / dominance active): solver traces projected on the callback alphabet
            import solvers
            n = 40 if not thorough else 200
            for mode, fam in (("base", "allimpacted"), ("cache", "allimpacted")):
                tr0 = os.path.join(w, f"seqcb_{mode}.ndjson")
                run_bin("seq", ["--seed", SEED * 1000 + 7, "--instances", n, "--family", fam, "--mode", mode, "--maxn", 6, "--callbacks", "--out", tr0])
                tr = os.path.join(w, f"seqcb_{mode}_proj.ndjson")
                with open(tr, "w") as out:
                    for e in read_ndjson(tr0):
                        if e["ev"] in ("reset", "compile", "cb", "compiled"):
                            if e["ev"] == "reset":
                                e["dd"] = e["dd"]
                            out.write(json.dumps(e) + "\n")
                cb_validate(chk, tr, ["--seed", SEED * 1000 + 7, "--mode", mode], in_solver=True)
        if pid == "C13":
            import components
            components.c13_width(chk, w, tier)
        chk.cov["rule"] = rule
        chk.assumptions = ["the recording wrappers around Problem / Relaxation log every call with its arguments", "the DOT reader of the harness (five statement forms) is trusted"] if viz else \
                          ["the recording wrappers around Problem / Relaxation log every call with its arguments"]
        return chk.finish()
    return f


def dd_runs_cb(chk, w, tier, fam, n, per, extra, name):
    thorough = tier == "thorough"
    for b in range(1 if not thorough else 4):
        tr = os.path.join(w, f"{name}_{fam}_{b}.ndjson")
        args = ["--seed", SEED * 1000 + b, "--instances", n, "--per-instance", per, "--family", fam, "--out", tr] + extra
        run_bin("dd", args)
        cb_validate(chk, tr, args)
        yield tr


def cb_validate(chk, tr, args, in_solver=False):
    res, r = validate("TraceCB", "TraceCB.cfg", tr, name=f"{chk.pid}_{os.path.basename(tr)}", heap="8g")
    evs = read_ndjson(tr)
    if res["total"] != len(evs):
        raise ToolError("trace length mismatch")
    runs = split_runs(evs)
    resets = {rr[0]["run"]: rr[0] for rr in runs}
    chk.cov["states"] += r["states"]
    chk.cov["transitions"] += len(evs)
    ncomp = sum(1 for e in evs if e["ev"] == "compiled")
    ncb = sum(1 for e in evs if e["ev"] == "cb")
    nviz = sum(1 for e in evs if e["ev"] == "viz")
    chk.cov["evaluations"] += ncomp
    chk.cov["callbacks_checked"] = chk.cov.get("callbacks_checked", 0) + ncb
    chk.cov["drawings_checked"] = chk.cov.get("drawings_checked", 0) + nviz
    chk.cov["merge_calls"] = chk.cov.get("merge_calls", 0) + sum(1 for e in evs if e["ev"] == "cb" and e["f"] == "merge")
    chk.cov["relax_calls"] = chk.cov.get("relax_calls", 0) + sum(1 for e in evs if e["ev"] == "cb" and e["f"] == "relax")
    chk.cov["traces_validated_against_impl"] += len(runs)
    # distinct non-trivial: compilations with at least one merge (C12/C20) or more nodes than the width in some layer
    cur, has = None, False
    seen = chk.__dict__.setdefault("_seen", set())
    for e in evs:
        if e["ev"] == "compile":
            cur, has = e, False
        elif e["ev"] == "cb" and (e["f"] == "merge" or (e["f"] == "next_variable" and len(e["states"]) > cur["width"])):
            has = True
        elif e["ev"] == "compiled" and has:
            key = json.dumps([cur["root"], cur["width"], cur["type"], cur["best_lb"]])
            if key not in seen:
                seen.add(key)
                chk.cov["distinct_nontrivial"] += 1
    if not chk.cov["samples"]:
        k = next((i for i, e in enumerate(evs) if e["ev"] == "cb" and e["f"] == "relax"), 3)
        chk.cov["samples"] = [{"callbacks": evs[max(1, k - 3):k + 2]}]
        if nviz:
            v = next(e for e in evs if e["ev"] == "viz" and len(e["nodes"]) > 3)
            chk.cov["samples"].append({"drawing": {"cfg": v["cfg"], "nodes": v["nodes"][:4], "edges": v["edges"][:4], "terminal": v["terminal"]}})
    for d in res["devs"]:
        tag, line, run = d[0], d[1], d[2]
        if tag.startswith("HARNESS"):
            raise ToolError("ill-formed generated instance")
        if tag.startswith("DIV"):
            chk.cov["divergences"] += 1
            log(f"  divergence (no verdict): {tag} at line {line} of {os.path.basename(tr)}")
            continue
        reset = resets[run]
        e = evs[line - 1]
        ev_short = e if e["ev"] != "viz" else {"ev": "viz", "cfg": e["cfg"], "terminal": e["terminal"], "nodes": len(e["nodes"]), "edges": len(e["edges"]), "malformed": e["malformed"][:3]}
        chk.violation(tag, {"engine": "seq" if in_solver else "dd", "args": [str(a) for a in args], "run": run, "dd": reset["dd"], "inst": reset["inst"], "event": ev_short, "line": line},
                      f"{tag}: {reset['dd']} diagram, family {reset['inst']['family']} long_arcs={reset['inst']['long_arcs']}, event {json.dumps(ev_short)[:500]}")


CB_RULE = ("every call into user code made by the three diagram implementations during isolated compilations (instances x reachable roots x widths 1..5 x incumbents x three types, "
           "long-arc and dynamic-order models included) and during real solver runs (cache and dominance active) is checked by TLC against the protocol state of TraceCB.tla and the model "
           "DPModel.tla; non-trivial = the compilation merged nodes or had a layer wider than the width; distinct = distinct (root, width, type, incumbent)")
CHECKS = {"C12": cb_check("C12", [("mixed", 60, 200, 15, []), ("reconv", 20, 80, 10, [])], CB_RULE),
          "C13": cb_check("C13", [("allimpacted", 80, 250, 15, [])], CB_RULE + "; C13: per layer, the number of for_each_in_domain calls between two next_variable calls against max_width; plus the width-combinator grid (Width.tla)"),
          "C20": cb_check("C20", [("mixed", 25, 80, 8, []), ("longarcs", 8, 30, 6, [])],
                          "each compiled diagram (exact / restricted / relaxed, feasible or infeasible, widths 1..5, three implementations) is drawn for all 64 flag combinations; a small DOT reader turns every drawing "
                          "into an event and TLC compares it with the diagram reconstructed from the callbacks (node ids in creation order, arcs with decision and cost, longest-path values, deleted/hidden nodes, terminal node and its edges); "
                          "non-trivial = diagram with a merge or a restricted layer; distinct = distinct (root, width, type, incumbent)", viz=True),
          "C06": make("C06", ["allimpacted", "longarcs"]), "C07": make("C07", ["allimpacted", "longarcs"]), "C08": make("C08", ["allimpacted", "longarcs"])}
