"""Solver-level checks.  Engine `seq` (sequential solver) and engine `par` (parallel solver, scheduler)."""
import json, re, os, re
from concurrent.futures import ThreadPoolExecutor
from vlib import *

KNOWN_SIGS = {"D5": "pooled-longarcs-root-in-cutset"}


SWEEP = {"runs": 0, "suspects": 0}


def seq_batches(w, tier, plan, name="seq"):
    """plan: list of (mode, family, maxn, instances_quick, instances_thorough, extra args)"""
    thorough = tier == "thorough"
    out = []
    nb = 1 if not thorough else 10
    for b in range(nb):
        for i, (mode, fam, maxn, nq, nt, extra) in enumerate(plan):
            tr = os.path.join(w, f"{name}_{mode}_{fam}_{maxn}_{b}.ndjson")
            args = ["--seed", SEED * 1000 + b * 17 + i, "--instances", nt if thorough else nq, "--family", fam, "--mode", mode, "--maxn", maxn, "--out", tr] + list(extra)
            p = run_bin("seq", args)
            m = re.search(r"SWEEP runs=(\d+) suspects=(\d+)", p.stderr or "")
            if m:
                SWEEP["runs"] += int(m.group(1))
                SWEEP["suspects"] += int(m.group(2))
            out.append((tr, args))
    return out


def validate_many(chk, batches, module, cfg, on_dev, max_workers=6, dfs=False):
    def val(x):
        tr, args = x
        return x, validate_chunked(module, cfg, tr, name=f"{chk.pid}_{os.path.basename(tr)}", dfs=dfs, heap="3g")
    with ThreadPoolExecutor(max_workers=max_workers) as ex:
        results = list(ex.map(val, batches))
    for (tr, args), (res, r) in results:
        evs = read_ndjson(tr)
        if res["total"] != len(evs):
            raise ToolError(f"trace length mismatch for {tr}")
        runs = split_runs(evs)
        chk.cov["states"] += r["states"]
        chk.cov["transitions"] += len(evs)
        chk.cov["traces_validated_against_impl"] += len(runs)
        chk.cov["evaluations"] += len(runs)
        byrun = {rr[0]["run"]: rr for rr in runs}
        for d in res["devs"]:
            tag, line, run, sig = d[0], d[1], d[2], (d[3] if len(d) > 3 else "-")
            if tag.startswith("HARNESS"):
                raise ToolError(f"ill-formed generated instance in {tr} run {run}: the harness is wrong, not the library")
            if tag.startswith("DIV"):
                chk.cov["divergences"] += 1
                log(f"  divergence (no verdict): {tag} at line {line} of {os.path.basename(tr)} run {run}")
                continue
            on_dev(tag, line, run, sig, byrun.get(run), tr, args, evs)
        yield tr, evs, runs


def seq_dev(chk):
    def f(tag, line, run, sig, rr, tr, args, evs):
        reset = rr[0]
        ret = rr[-1]
        conf = {k: reset[k] for k in ("dd", "cache", "dom", "fringe", "width", "cut_at", "nprimal", "role")}
        rp = {"engine": "seq", "args": [str(a) for a in args], "run": run, "cfg": conf, "inst": reset["inst"], "line": line, "event": evs[line - 1] if line - 1 < len(evs) else None}
        chk.violation(tag, rp, f"{tag}: {conf} family {reset['inst']['family']} n={reset['inst']['n']}; outcome {json.dumps({k: ret.get(k) for k in ('is_exact', 'best_value', 'best_lb', 'best_ub', 'watchdog', 'polls')})}",
                      signature=KNOWN_SIGS.get(sig))
    return f


def seq_stats(chk, runs):
    st = chk.cov.setdefault("runs", {})
    seen = chk.__dict__.setdefault("_seen", set())
    for rr in runs:
        reset, ret = rr[0], rr[-1]
        k = f"{reset['role']}/{reset['dd']}/{'cache' if reset['cache'] else 'nocache'}/{'dom' if reset['dom'] else 'nodom'}/{reset['fringe']}"
        st[k] = st.get(k, 0) + 1
        if ret.get("explored", 0) >= 2 or reset["cut_at"] > 0:
            key = (json.dumps(reset["inst"], sort_keys=True), k, reset["width"], reset["cut_at"], reset["nprimal"])
            if key not in seen:
                seen.add(key)
                chk.cov["distinct_nontrivial"] += 1


def seq_replay(chk, w, replay):
    rp = json.load(open(replay))["replay"]
    inst = os.path.join(w, "inst.json")
    json.dump([rp["inst"]], open(inst, "w"))
    a = rp["args"]
    mode = a[a.index("--mode") + 1]
    seed = a[a.index("--seed") + 1]
    tr = os.path.join(w, "replay.ndjson")
    run_bin("seq", ["--seed", seed, "--mode", mode, "--inst-file", inst, "--cfg", json.dumps({k: rp["cfg"][k] for k in ("dd", "fringe", "width")}), "--out", tr])
    for _ in validate_many(chk, [(tr, ["--mode", mode, "--seed", seed])], "TraceSeq", "TraceSeq.cfg", seq_dev(chk)):
        pass
    chk.cov.update({"distinct_nontrivial": 2, "samples": [rp["cfg"]]})
    return chk.finish()


SEQ_RULE = ("real SequentialSolver runs over seeded instances of the lifted-table / knapsack / set-packing families (negative costs, ties, dead ends, depth-free state types, "
            "dynamic variable order) x {LEL, frontier, pooled} x {simple, duplicate-free fringe} x widths 1..3 x rough bound {none, exact, slack}; every fringe / cache / "
            "compilation event of a run is replayed by TLC through SeqBnB.tla / Fringe.tla / ThresholdCache.tla / DDContract.tla and the outcome compared with the declarative optimum of DPModel.tla; "
            "non-trivial = the search explored >= 2 sub-problems (or the run was cut off); distinct = distinct (instance, configuration)")
SEQ_ASSUME = ["generated instances satisfy WellFormed (checked by TLC per instance)", "recording wrappers log faithfully",
              "termination: a run that polls the cutoff more than 6000 times on these tiny instances is reported as non-terminating"]


def sample_run(runs):
    for rr in runs:
        if rr[0].get("level") == "full" and rr[-1].get("explored", 0) >= 2:
            keep = [e for e in rr if e["ev"] in ("reset", "pop", "compile", "compiled", "cutset", "push", "return")]
            s = json.loads(json.dumps(keep[:9] + keep[-1:]))
            return s
    return runs[0][:3] + runs[0][-1:]


def simple_seq_check(pid, plan, rule_extra=""):
    def f(tier, replay):
        chk = Check(pid, tier)
        w = workdir(pid)
        if replay:
            return seq_replay(chk, w, replay)
        batches = seq_batches(w, tier, plan)
        first = None
        for tr, evs, runs in validate_many(chk, batches, "TraceSeq", "TraceSeq.cfg", seq_dev(chk)):
            seq_stats(chk, runs)
            first = first or runs
        chk.cov["samples"] = [{"run": sample_run(first)}]
        chk.cov["rule"] = SEQ_RULE + rule_extra
        if SWEEP["runs"]:
            chk.cov["unlogged_sweep"] = dict(SWEEP, note="runs solved without logging; the suspects (outcome differs from the engine's own optimum) were re-run logged and are among the validated traces")
        chk.assumptions = SEQ_ASSUME
        extra_parts(chk, w, tier)
        if SWEEP["runs"]:
            chk.cov["unlogged_sweep"] = dict(SWEEP, note="sequential runs and free-running parallel runs solved without logging; the suspects (outcome differs from the engine's own "
                                                          "optimum, or reported solution does not replay to the reported value) were re-run / written out and are among the validated traces")
        return chk.finish()
    return f


MC_PAR_Q = ["MC_ParBnB_w2_t1_detTRUE.cfg", "MC_ParBnB_w3_t1_detTRUE.cfg", "MC_ParBnB_w2_t2_detFALSE.cfg", "MC_ParBnB_w2_t3_detFALSE.cfg"]
MC_PAR_T = MC_PAR_Q + ["MC_ParBnB_w2_t1_detFALSE.cfg", "MC_ParBnB_w3_t2_detFALSE.cfg"]
MC_SEQ = ["MC_SeqBnB_t1.cfg", "MC_SeqBnB_t2.cfg", "MC_SeqBnB_t3.cfg"]
MC_FOR = {"C01": ("seq",), "C14": ("seq",), "C19": ("seq",), "C05": ("seq", "par"), "C02": ("seq", "par"), "C03": ("par",), "C04": ("par",)}


def mc_parts(chk, tier):
    """the specification alone: TLC explores the generative solver models (every contract-abiding compile outcome, every interleaving,
    every cutoff point) and checks the property invariants / liveness there; a failure is a specification-level finding -> tool error"""
    kinds = MC_FOR.get(chk.pid, ())
    cfgs = []
    if "seq" in kinds:
        cfgs += [("MC_SeqBnB", c) for c in MC_SEQ]
    if "par" in kinds:
        cfgs += [("MC_ParBnB", c) for c in (MC_PAR_T if tier == "thorough" else MC_PAR_Q)]
    def one(x):
        mod, c = x
        return x, mc(mod, c, workers=4, require_actions=("_t3" not in c), timeout=3600)
    with ThreadPoolExecutor(max_workers=3) as ex:
        for (mod, c), r in ex.map(one, cfgs):
            chk.add_mc(c, r, constants=open(os.path.join(SPEC, c)).read().split("\n")[1])


def apalache_part(chk, tier):
    """C04, unbounded number of nodes: Apalache discharges the inductive invariant of the counter abstraction ParCounters.tla
    (no worker parked unless a node is in progress; complete only when nothing is open); TLC checks that MC_ParBnB refines it."""
    import subprocess
    obligations = []
    for n in ([3] if tier == "quick" else [3, 5]):
        for name, args in (("Init => IndInv", ["--init=Init", "--inv=IndInv", "--length=0"]), ("IndInv /\\ Next => IndInv'", ["--init=IndInit", "--inv=IndInv", "--length=1"]),
                           ("IndInv => C04_NoDeadlock", ["--init=IndInit", "--inv=C04_NoDeadlock", "--length=0"])):
            out = os.path.join(WORK, "apalache", f"{chk.pid}_{n}_{len(obligations)}")
            os.makedirs(out, exist_ok=True)
            try:
                p = subprocess.run(["apalache-mc", "check", "--cinit=ConstInit", f"--out-dir={out}"] + args + [f"ParCounters{n}.tla"], cwd=os.path.join(SPEC, "apalache"),
                                   capture_output=True, text=True, timeout=1800)
            except subprocess.TimeoutExpired:
                raise ToolError("apalache timed out")
            ok = "The outcome is: NoError" in p.stdout
            obligations.append({"workers": n, "obligation": name, "discharged": ok})
            if not ok:
                log(p.stdout[-2000:])
                raise ToolError(f"Apalache did not discharge {name} for {n} workers (specification-level failure)")
    chk.cov["apalache_inductive_invariant"] = {"module": "spec/ParCounters.tla", "obligations": obligations,
                                               "meaning": "fringe size and ongoing counter unbounded; IndInv = TypeOK /\\ Acc_Ongoing /\\ C04_NoLostWakeup /\\ C04_CompleteMeansDone"}


def potential_insts(w, k, maxn=5):
    """instances of the deferred-rewards variants (non-identity relax) for the composed models"""
    tr = os.path.join(w, "pot_insts.ndjson")
    run_bin("dd", ["--seed", SEED * 1000 + 79, "--instances", 12 * k + 40, "--per-instance", 1, "--family", "potential", "--dd", "lel", "--out", tr])
    return [e["inst"] for e in read_ndjson(tr) if e["ev"] == "reset" and e["inst"]["n"] <= maxn and e["inst"]["b"] <= 4][:k]


def mc_seqc_part(chk, w, tier):
    """C09 on the specification: the composed caching search (sequential loop x DD.tla with cache filter and thresholds x ThresholdCache)"""
    thorough = tier == "thorough"
    tr = os.path.join(w, "seqc_insts.ndjson")
    run_bin("dd", ["--seed", SEED * 1000 + 77, "--instances", 120 if not thorough else 600, "--per-instance", 1, "--family", "reconv", "--dd", "lel", "--out", tr])
    insts = [e["inst"] for e in read_ndjson(tr) if e["ev"] == "reset" and e["inst"]["family"] in ("lifted", "knapsack") and e["inst"]["n"] <= 6]
    insts = insts[: (50 if not thorough else 340)] + potential_insts(w, 10 if not thorough else 60)
    f = os.path.join(w, "seqc_insts.json")
    json.dump(insts, open(f, "w"))
    r = mc("MC_SeqC", "MC_SeqC.cfg", workers=8, env={"INSTS": f}, timeout=3600, require_actions=False, coverage=thorough)
    chk.add_mc("MC_SeqC.cfg", r, constants=f"Widths = {{1,2}} Cuts = {{lel, fc}}; {len(insts)} re-convergent instances (2 base states per layer x 3 decisions, knapsacks with 2 distinct weights; n <= 6): {4 * len(insts)} complete caching searches, every tie-break")


def mc_parc_part(chk, w, tier):
    """C09 / C03 / C04 on the specification: the composed PARALLEL caching search (critical sections of ParBnB.tla x DD.tla reading the shared,
    concurrently written threshold table layer by layer)"""
    thorough = tier == "thorough"
    tr = os.path.join(w, "parc_insts.ndjson")
    run_bin("dd", ["--seed", SEED * 1000 + 78, "--instances", 120 if not thorough else 400, "--per-instance", 1, "--family", "reconv", "--dd", "lel", "--out", tr])
    insts = [e["inst"] for e in read_ndjson(tr) if e["ev"] == "reset" and e["inst"]["family"] in ("lifted", "knapsack") and e["inst"]["n"] <= 6]
    plans = [("MC_ParC_w2.cfg", 20)] if not thorough else [("MC_ParC_w2.cfg", 120), ("MC_ParC_w2_nodup.cfg", 60), ("MC_ParC_w3.cfg", 30), ("MC_ParC_w2_partial.cfg", 36)]
    pots = potential_insts(w, 6 if not thorough else 20)
    for cfg, k in plans:
        f = os.path.join(w, f"parc_insts_{k}.json")
        w3 = "w3" in cfg                                                                # three workers: n <= 4 only (with n = 5 the state space no longer fits: 25 GB of states after 80 min)
        pool = insts if not w3 else [i for i in insts if i["n"] <= 4]
        used = pool[:k] + [i for i in pots if not w3 or i["n"] <= 4][: max(2, k // 6)]
        json.dump(used, open(f, "w"))
        r = mc("MC_ParC", cfg, workers=8, env={"INSTS": f}, timeout=5400, require_actions=False, coverage=False)      # (coverage statistics cost 10x here)
        chk.add_mc(cfg, r, constants=f"Widths = {{1,2}} Cuts = {{lel, fc}}; {len(used)} instances (re-convergent and deferred-rewards families, n <= {max([i['n'] for i in used] + [0])}): complete parallel caching searches, "
                                     "every interleaving of critical sections, diagram layers and cache publications, every tie-break")


def extra_parts(chk, w, tier):
    """parts of a property decided by another engine"""
    mc_parts(chk, tier)
    if chk.pid == "C09":
        mc_seqc_part(chk, w, tier)
    if chk.pid == "C09" or (tier == "thorough" and chk.pid in ("C03", "C04")):
        mc_parc_part(chk, w, tier)
    if chk.pid == "C10":
        import components
        components.c10_component(chk, w, tier)
    if chk.pid in PAR_PARTS:
        PAR_PARTS[chk.pid](chk, w, tier)


PAR_PARTS = {}


def add_par_part(pid, modes):
    def f(chk, w, tier):
        first = par_part(chk, w, tier, modes)
        chk.cov["samples"].append({"parallel_run": [e for e in first[len(first) // 2] if e["ev"] in ("reset", "locked", "workload", "pop", "push", "wait", "cutoff_fires", "return")][:14]})
        chk.cov["rule"] += "; plus " + PAR_RULE
        chk.assumptions += PAR_ASSUME
        if pid == "C05":
            table_replay_part(chk, w, tier)
    PAR_PARTS[pid] = f


def c17_runs(chk, w, tier):
    """C17 on the bounds of real runs (optimum 0 or negative included): the gap flags ride on every return event"""
    batches = seq_batches(w, tier, [("base", "allimpacted", 5, 60, 200, []), ("cutoff", "allimpacted", 5, 12, 40, [])], name="gapruns")
    for tr, evs, runs in validate_many(chk, batches, "TraceSeq", "TraceSeq.cfg", seq_dev(chk)):
        chk.cov["distinct_nontrivial"] += len({(rr[-1]["best_lb"], rr[-1]["best_ub"]) for rr in runs})
    chk.cov["samples"].append({"run_gap": runs[-1][-1]["gap"]})


CHECKS = {
    "C01": simple_seq_check("C01", [("base", "allimpacted", 6, 300, 600, ["--sweep", 150]), ("base", "allimpacted", 7, 120, 300, ["--sweep", 150]), ("base", "allimpacted", 8, 150, 400, []), ("base", "reconv", 8, 60, 200, ["--sweep", 100])],
                            "; sweep: 150 (100) further instances per listed instance are solved unlogged, the runs whose outcome disagrees with the engine's own optimum are re-run logged and judged by TLC"),
    "C14": simple_seq_check("C14", [("primal", "allimpacted", 6, 200, 500, []), ("primal", "allimpacted", 7, 60, 200, [])], "; warm starts: the oracle's optimal and worst feasible witness solutions, alone, in both orders, and the same value twice with different solutions"),
    "C19": simple_seq_check("C19", [("cutoff", "allimpacted", 6, 120, 300, []), ("cutoff", "allimpacted", 7, 50, 150, []), ("cutoff", "knapsack", 9, 60, 200, []), ("cutoff", "setpack", 9, 20, 80, []),
                                    ("cutoff", "reconv", 8, 80, 250, ["--cfg", json.dumps({"fringe": "nodup", "width": 1})]), ("cutoff", "knapsack", 8, 60, 200, ["--cfg", json.dumps({"fringe": "nodup"})])], "; cutoff series: the run repeated with the cutoff firing at every poll index k = 1..K+1, consecutive outcomes compared"),
    "C09": simple_seq_check("C09", [("cache", "allimpacted", 6, 300, 700, ["--sweep", 100]), ("cache", "allimpacted", 7, 120, 300, ["--sweep", 100]), ("cache", "allimpacted", 8, 30, 100, [])],
                            "; each configuration is run without and with the threshold cache (and with cache + dominance): outcomes compared, and the route monitor C09_RouteExists "
                            "(some optimal solution stays reachable through an open node that neither its bound nor a threshold discards) is evaluated by TLC at every pop"),
    "C10": simple_seq_check("C10", [("dom", "allimpacted", 6, 500, 900, []), ("dom", "allimpacted", 7, 250, 500, []), ("dom", "allimpacted", 8, 60, 150, [])],
                            "; each configuration is run without and with the dominance checker (exact rule: superset / capacity with value; weakened rule: additionally keyed by parity)"),
    "C02": simple_seq_check("C02", [("base", "allimpacted", 6, 150, 400, ["--sweep", 300]), ("cache", "allimpacted", 6, 100, 300, []), ("primal", "allimpacted", 6, 60, 200, []), ("cutoff", "allimpacted", 6, 80, 200, []), ("longarc", "longarcs", 6, 60, 200, [])],
                            "; C02 is evaluated on the outcome of every run: uninterrupted, warm-started, cut off at every poll index"),
    "C05": simple_seq_check("C05", [("cutoff", "allimpacted", 6, 150, 400, []), ("cutoff", "allimpacted", 7, 50, 150, []), ("cutoff", "knapsack", 9, 40, 150, []), ("cutoff", "longarcs", 6, 30, 100, [])],
                            "; cutoff series: the cutoff fires at every poll index k = 1..K+1 (K = polls of the uninterrupted run)"),
    "C15": simple_seq_check("C15", [("longarc", "longarcs", 6, 300, 800, ["--sweep", 150]), ("longarc", "longarcs", 7, 100, 300, ["--sweep", 150])], "; long-arc models (depth-free lifted tables with neutral elements, set-packing with is_impacted_by): plain diagram vs pooled, cache off/on"),
}


# =============================================================================== parallel solver (engine `par`)
def run_par(out, args, timeout=1800):
    """run the par engine to completion; it exits with 3 after writing a run that deadlocked / livelocked: restart after it"""
    if os.path.exists(out):
        os.remove(out)
    start, restarts = 0, 0
    while True:
        p = run_bin("par", list(args) + ["--start", start, "--out", out], check=False, timeout=timeout)
        m = re.search(r"SWEEP runs=(\d+) suspects=(\d+)", p.stderr or "")
        if m:
            SWEEP["runs"] += int(m.group(1))
            SWEEP["suspects"] += int(m.group(2))
        if p.returncode == 0:
            return restarts
        if p.returncode != 3:
            log(p.stderr[-3000:])
            raise ToolError(f"engine par exited with {p.returncode}")
        restarts += 1
        with open(out) as f:
            last = None
            for l in f:
                if '"ev":"reset"' in l:
                    last = l
            start = json.loads(last)["run"] + 1 if last else 0      # (unwritten sweep runs leave gaps in the numbering)
        if restarts >= 25:
            # stuck runs are data (C04 verdicts of the scheduler, reported by TracePar): the rest of this batch is given up, not the check
            log(f"  engine par: {restarts} runs of this batch deadlocked / livelocked; batch cut short")
            return restarts


def par_dev(chk):
    def f(tag, line, run, sig, rr, tr, args, evs):
        reset, ret = rr[0], rr[-1]
        conf = reset["cfg"]
        sched = ret.get("sched", {})
        # replay = the instance, the configuration and the schedule actually executed (granted worker per step) + cutoff step
        c2 = dict(conf)
        if conf["sched"] != "free":
            c2["sched"] = "policy"
            c2["policy"] = sched.get("granted", [])
        rp = {"engine": "par", "job": {"inst": reset["inst"], "cfg": c2, "role": reset["role"]}, "line": line}
        short = {k: conf[k] for k in ("dd", "cache", "dom", "fringe", "width", "nconstr", "nspawn", "sched", "cut_step", "cut_poll")}
        chk.violation(tag, rp, f"{tag}: {short} family {reset['inst']['family']} n={reset['inst']['n']}; outcome "
                      f"{json.dumps({k: ret.get(k) for k in ('ev', 'verdict', 'is_exact', 'best_value', 'best_lb', 'best_ub', 'cutoff_fired')})}; schedule {sched.get('granted', [])[:60]}",
                      signature=KNOWN_SIGS.get(sig))
    return f


def par_stats(chk, runs):
    st = chk.cov.setdefault("par_runs", {})
    seen = chk.__dict__.setdefault("_seen", set())
    for rr in runs:
        reset, ret = rr[0], rr[-1]
        c = reset["cfg"]
        k = f"{reset['role']}/{c['sched']}/{c['nspawn']}w/{c['dd']}/{'cache' if c['cache'] else 'nocache'}/{c['fringe']}"
        st[k] = st.get(k, 0) + 1
        nontrivial = (c["nspawn"] >= 2 and ret.get("explored", 0) >= 2) or ret.get("cutoff_fired")
        key = (json.dumps(reset["inst"], sort_keys=True), json.dumps(c, sort_keys=True), json.dumps(ret.get("sched", {}).get("granted")))
        if nontrivial and key not in seen:
            seen.add(key)
            chk.cov["distinct_nontrivial"] += 1
        chk.cov["schedule_steps"] = chk.cov.get("schedule_steps", 0) + ret.get("sched", {}).get("steps", 0)
        chk.cov["schedule_divergences"] = chk.cov.get("schedule_divergences", 0) + ret.get("sched", {}).get("diverged", 0)


def par_jobs_cut_sweep(w, sched_trace, cap_per_run, max_jobs, name):
    """for every scheduled uninterrupted run: the same schedule with the cutoff flag raised at every scheduler step"""
    jobs = []
    for rr in split_runs(read_ndjson(sched_trace)):
        reset, ret = rr[0], rr[-1]
        if ret["ev"] != "return" or reset["cfg"]["sched"] == "free":
            continue
        granted = ret["sched"]["granted"]
        steps = list(range(0, len(granted) + 1))
        if len(steps) > cap_per_run:
            steps = sorted(random.Random(SEED + len(jobs)).sample(steps, cap_per_run))
        for k in steps:
            c = dict(reset["cfg"])
            c.update({"sched": "policy", "policy": granted, "cut_step": k})
            jobs.append({"inst": reset["inst"], "cfg": c, "role": "cut"})
        if len(jobs) >= max_jobs:
            break
    f = os.path.join(w, f"{name}_jobs.json")
    json.dump(jobs[:max_jobs], open(f, "w"))
    return f, len(jobs[:max_jobs])


def par_part(chk, w, tier, modes):
    """modes: list of (mode, family, maxn, instances_q, instances_t, per_instance, threads)"""
    thorough = tier == "thorough"
    batches = []
    for b in range(1 if not thorough else 6):
        for i, mm in enumerate(modes):
            (mode, fam, maxn, nq, nt, per, threads), xtra = mm[:7], list(mm[7:])
            tr = os.path.join(w, f"par_{mode}_{fam}_{maxn}_{b}_{i}.ndjson")
            if mode == "cutsweep":
                base = os.path.join(w, f"par_cutbase_{fam}_{maxn}_{b}_{i}.ndjson")
                run_par(base, ["--seed", SEED * 1000 + b * 31 + i, "--instances", nt if thorough else nq, "--family", fam, "--mode", "sched", "--maxn", maxn, "--per-instance", per, "--threads", threads] + xtra)
                jf, nj = par_jobs_cut_sweep(w, base, 40 if not thorough else 400, 2500 if not thorough else 20000, f"cut_{fam}_{maxn}_{b}_{i}")
                chk.cov["restarts_after_stuck_runs"] = chk.cov.get("restarts_after_stuck_runs", 0) + run_par(tr, ["--jobs", jf])
                batches.append((tr, ["--jobs", jf]))
            else:
                args = ["--seed", SEED * 1000 + b * 31 + i, "--instances", nt if thorough else nq, "--family", fam, "--mode", mode, "--maxn", maxn, "--per-instance", per, "--threads", threads] + xtra
                chk.cov["restarts_after_stuck_runs"] = chk.cov.get("restarts_after_stuck_runs", 0) + run_par(tr, args)
                batches.append((tr, args))
    first = None
    for tr, evs, runs in validate_many(chk, batches, "TracePar", "TracePar.cfg", par_dev(chk)):
        par_stats(chk, runs)
        first = first or runs
    return first


def par_replay(chk, w, replay):
    rp = json.load(open(replay))["replay"]
    jf = os.path.join(w, "job.json")
    json.dump([rp["job"]], open(jf, "w"))
    tr = os.path.join(w, "replay.ndjson")
    run_par(tr, ["--jobs", jf])
    for _ in validate_many(chk, [(tr, ["--jobs", jf])], "TracePar", "TracePar.cfg", par_dev(chk)):
        pass
    chk.cov.update({"distinct_nontrivial": 2, "samples": [rp["job"]["cfg"]]})
    return chk.finish()


PAR_RULE = ("real ParallelSolver runs under the deterministic scheduler over the hooks of parallel.rs (one worker at a time between two lock acquisitions; schedules: seeded random, "
            "PCT-style priorities, replayed policies; 1..4 workers; optional gates at cache operations) and free-running real threads (2..16); every critical section, fringe / cache "
            "operation and compilation is an event; TLC replays each run through ParBnB.tla (snapshot agreement after each lock acquisition) and checks the outcome against DPModel's oracle; "
            "non-trivial = >= 2 workers and >= 2 explored sub-problems, or the cutoff fired; distinct = distinct (instance, configuration, executed schedule)")
PAR_ASSUME = ["the hooks announce every acquisition of the critical mutex made by a worker (a lock site added without hook is invisible)",
              "DashMap internals are exercised by real threads only (free-running runs and C18)", "deadlock verdict = quiescent state with parked workers and nobody at a gate (1.5 s grace)"]


def par_check(pid, modes, seq_plan=None, rule_extra=""):
    def f(tier, replay):
        chk = Check(pid, tier)
        w = workdir(pid)
        if replay:
            rp = json.load(open(replay))["replay"]
            return par_replay(chk, w, replay) if rp.get("engine") == "par" else seq_replay(chk, w, replay)
        first = par_part(chk, w, tier, modes)
        chk.cov["samples"] = [{"parallel_run": [e for e in first[len(first) // 2] if e["ev"] in ("reset", "locked", "workload", "pop", "push", "wait", "return")][:14]}]
        if seq_plan:
            firsts = None
            for tr, evs, runs in validate_many(chk, seq_batches(w, tier, seq_plan), "TraceSeq", "TraceSeq.cfg", seq_dev(chk)):
                seq_stats(chk, runs)
                firsts = firsts or runs
            chk.cov["samples"].append({"sequential_run": sample_run(firsts)})
        chk.cov["rule"] = PAR_RULE + ("; plus " + SEQ_RULE if seq_plan else "") + rule_extra
        if SWEEP["runs"]:
            chk.cov["unlogged_sweep"] = dict(SWEEP, note="free-running parallel runs (2-6 threads) solved without being written out; the suspects (outcome differs from the engine's own optimum) are among the validated traces")
        chk.assumptions = PAR_ASSUME + (SEQ_ASSUME if seq_plan else [])
        mc_parts(chk, tier)
        if pid == "C04":
            apalache_part(chk, tier)
        table_replay_part(chk, w, tier)
        return chk.finish()
    return f


FOCUS = ["--cfg", json.dumps({"dd": "lel", "cache": True, "fringe": "simple", "width": 1})]   # pop-time cache pruning (skipped_all branch of get_workload)
FOCUS2 = ["--cfg", json.dumps({"cache": True, "fringe": "simple"})]
CHECKS.update({
    "C03": par_check("C03", [("sched", "allimpacted", 6, 120, 400, 6, 3), ("sched", "allimpacted", 7, 40, 150, 6, 4), ("free", "allimpacted", 7, 40, 150, 6, 16, "--sweep", 120),
                           ("sched", "reconv", 8, 150, 400, 3, 3) + tuple(FOCUS), ("sched", "reconv", 8, 100, 300, 3, 4) + tuple(FOCUS2)]),
    "C04": par_check("C04", [("sched", "allimpacted", 6, 80, 300, 6, 4), ("threads", "allimpacted", 6, 60, 200, 6, 4), ("cutsweep", "allimpacted", 6, 25, 80, 3, 3), ("free", "allimpacted", 6, 30, 100, 6, 16, "--sweep", 60),
                            ("sched", "reconv", 8, 300, 800, 3, 3) + tuple(FOCUS), ("sched", "reconv", 8, 100, 300, 3, 4) + tuple(FOCUS2), ("free", "reconv", 8, 60, 200, 4, 8) + tuple(FOCUS)],
                     rule_extra="; thread counts changed after construction (with_nb_threads, both directions); cutoff raised at every step of recorded schedules"),
})

add_par_part("C05", [("cutsweep", "allimpacted", 6, 40, 120, 3, 3), ("cutsweep", "allimpacted", 7, 15, 60, 3, 4), ("free", "allimpacted", 7, 40, 150, 6, 8)])
add_par_part("C02", [("sched", "allimpacted", 6, 60, 200, 4, 3), ("cutsweep", "allimpacted", 6, 15, 50, 2, 3), ("free", "allimpacted", 6, 20, 80, 4, 8, "--sweep", 250), ("free", "reconv", 8, 15, 50, 2, 4, "--sweep", 400)])
add_par_part("C09", [("sched", "allimpacted", 6, 80, 250, 4, 3) + tuple(FOCUS2), ("sched", "reconv", 8, 300, 700, 4, 3) + tuple(FOCUS), ("sched", "reconv", 8, 200, 500, 4, 3) + tuple(FOCUS2), ("sched", "reconv", 7, 150, 400, 4, 4) + tuple(FOCUS2)])
add_par_part("C14", [("primal", "allimpacted", 6, 250, 600, 6, 3), ("primal", "allimpacted", 7, 80, 250, 6, 4)])


# =============================================================================== table mode: TLC paths replayed as schedules
GATE = re.compile(r'^(GW_Aborted|GW_Complete|GW_Wait|GW_Pop|Compile|Update|Enqueue|Abort|Finish)\((\d+)')


def table_replay_part(chk, w, tier):
    """spec -> impl for the parallel solver: outcome tables from the real compilers, every interleaving explored by TLC
    (MC_ParBnBTable), an edge cover of each state graph replayed on the real ParallelSolver by the scheduler, the recorded runs
    validated by TracePar.  A schedule that cannot be followed is a divergence (counted), never a verdict."""
    thorough = tier == "thorough"
    tabs = os.path.join(w, "tables.json")
    run_bin("tab", ["--seed", SEED, "--count", 3 if not thorough else 10, "--min-cores", 4, "--max-cores", 7 if not thorough else 9, "--out", tabs])
    tables = json.load(open(tabs))
    jobs = []
    stats = []
    for ti, t in enumerate(tables):
        tf = os.path.join(w, f"table_{ti}.json")
        json.dump(t, open(tf, "w"))
        for nw in ([2] if not thorough else [2, 3]):
            dot, r = dump_graph("MC_ParBnBTable", f"MC_ParBnBTable_w{nw}.cfg", f"partab_{chk.pid}_{ti}_{nw}", env={"TABLE": tf}, timeout=1200)
            edges, inits, _ = parse_dot(dot)
            os.remove(dot)
            chk.add_mc(f"MC_ParBnBTable_w{nw}.cfg[table {ti}: {t['dd']} width {t['width']} {len(t['cores'])} sub-problems x {len(t['lbs'])} incumbents]", r,
                       constants=f"NSpawn = {nw} WithCutoff = TRUE; outcomes = real {t['dd']} compiler, width {t['width']}")
            paths, st = edge_cover(edges, inits, max_len=120, max_paths=(250 if not thorough else 4000))
            st.update({"table": ti, "workers": nw})
            stats.append(st)
            for p in paths:
                policy, cut = [], None
                for lab in p:
                    if lab.startswith("CutoffFires"):
                        cut = len(policy)
                        continue
                    m = GATE.match(lab)
                    if not m:
                        continue  # the stuttering step of the terminated system
                    policy.append(int(m.group(2)) - 1)
                cfg = {"dd": t["dd"], "cache": False, "dom": False, "fringe": "simple", "width": t["width"], "nconstr": nw, "nspawn": nw, "sched": "policy",
                       "sseed": 1, "policy": policy, "cut_step": -1 if cut is None else cut, "cut_poll": 0, "cache_gates": False}
                jobs.append({"inst": t["inst"], "cfg": cfg, "role": "cut" if cut is not None else "sched"})
    chk.cov.setdefault("graph_cover", []).extend(stats)
    jf = os.path.join(w, "table_jobs.json")
    json.dump(jobs, open(jf, "w"))
    tr = os.path.join(w, "par_table_replay.ndjson")
    chk.cov["restarts_after_stuck_runs"] = chk.cov.get("restarts_after_stuck_runs", 0) + run_par(tr, ["--jobs", jf])
    followed = 0
    for _tr, evs, runs in validate_many(chk, [(tr, ["--jobs", jf])], "TracePar", "TracePar.cfg", par_dev(chk)):
        par_stats(chk, runs)
        for rr in runs:
            ret = rr[-1]
            if ret.get("sched", {}).get("diverged", 1) == 0:
                followed += 1
    chk.cov["tlc_paths_replayed"] = chk.cov.get("tlc_paths_replayed", 0) + len(jobs)
    chk.cov["tlc_paths_followed_exactly"] = chk.cov.get("tlc_paths_followed_exactly", 0) + followed
    chk.cov["samples"].append({"tlc_generated_schedule": jobs[len(jobs) // 2]["cfg"]})


