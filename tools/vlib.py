"""Shared machinery of the checks: harness build, TLC runs, graph walks, trace validation,
verdicts, evidence.  Exit codes: 0 held, 1 violation (with VIOLATION line), 2 tool error."""
import json, os, re, subprocess, sys, time, hashlib, shutil, random

VERIF = os.path.dirname(os.path.dirname(os.path.abspath(__file__)))
REPO = os.environ.get("VERIF_REPO", "/repo")      # the variable: development only (tools/mutate.py works on copies)
SPEC = os.path.join(VERIF, "spec")
HARNESS = os.path.join(VERIF, "harness")
WORK = os.path.join(VERIF, "work")          # scratch, ignored by git
EVID = os.path.join(VERIF, "evidence")
REPLAYS = os.path.join(VERIF, "replays")
JAR = "/opt/veriftools/tla/tla2tools.jar"
CM = "/opt/veriftools/tla/CommunityModules-deps.jar"
SEED = int(os.environ.get("VERIF_SEED", "1") or 1)


class ToolError(Exception):
    pass


def log(*a):
    print(*a, file=sys.stderr, flush=True)


def workdir(name):
    d = os.path.join(WORK, name)
    shutil.rmtree(d, ignore_errors=True)
    os.makedirs(d, exist_ok=True)
    return d


# ----------------------------------------------------------------------------- harness
_built = False


def build_harness():
    """(re)build the harness against /repo's current working tree, hooks enabled (cargo decides what is stale)"""
    global _built
    if _built or os.environ.get("VERIF_BIN_DIR"):      # VERIF_BIN_DIR: development only (tools/coverage.sh), pre-built instrumented engines
        return
    lock = os.path.join(HARNESS, "Cargo.lock")
    if not os.path.exists(lock):
        shutil.copy(os.path.join(REPO, "Cargo.lock"), lock)
    env = dict(os.environ, CARGO_NET_OFFLINE="true")
    t0 = time.time()
    p = subprocess.run(["cargo", "build", "--offline", "--bins"], cwd=HARNESS, env=env, capture_output=True, text=True)
    if p.returncode != 0:
        log(p.stderr[-4000:])
        raise ToolError("harness build failed (the tree under /repo does not compile with the hooks enabled?)")
    log(f"[build] harness built in {time.time()-t0:.1f}s")
    _built = True


class EngineDied(ToolError):
    """an engine was killed (signal, memory exhaustion) or did not finish in time: tools/check.py tries to reproduce it on the one
    instance it was working on -- a reproducible death is the library hanging / exhausting memory (data), anything else a tool error"""
    def __init__(self, name, args, how):
        super().__init__(f"engine {name} {' '.join(map(str, args[:3]))} {how}")
        self.name, self.args_, self.how = name, [str(a) for a in args], how


def _limits():
    import resource
    resource.setrlimit(resource.RLIMIT_AS, (12 << 30, 12 << 30))        # an engine needs well under 1 GB


def run_bin(name, args, timeout=1800, env=None, check=True):
    build_harness()
    exe = os.path.join(os.environ.get("VERIF_BIN_DIR") or os.path.join(HARNESS, "target", "debug"), name)
    e = dict(os.environ)
    if env:
        e.update(env)
    try:
        p = subprocess.run([exe] + [str(a) for a in args], capture_output=True, text=True, timeout=timeout, env=e, preexec_fn=_limits)
    except subprocess.TimeoutExpired:
        raise EngineDied(name, args, f"did not finish within {timeout} s")
    if p.returncode < 0 or (p.returncode == 101 and "memory allocation" in (p.stderr or "")) or (p.returncode == 134):
        raise EngineDied(name, args, f"was killed (exit {p.returncode}): {(p.stderr or '')[-200:]}")
    if check and p.returncode != 0:
        log(p.stdout[-2000:])
        log(p.stderr[-4000:])
        raise ToolError(f"engine {name} {' '.join(map(str, args[:3]))} exited with {p.returncode}")
    return p


def reproduce_engine_death(pid, tier, err):
    """re-run the engine on the last instance it had started (alone, twice, 90 s, memory-limited); returns a replay object when it dies again"""
    a = err.args_
    if "--out" not in a or err.name not in ("seq", "dd", "par"):
        return None
    out = a[a.index("--out") + 1]
    last = None
    try:
        with open(out) as f:
            for l in f:
                if '"ev":"reset"' in l:
                    last = l
    except OSError:
        return None
    cur = out + ".cur"          # the instance of the unlogged sweep run in progress, if any
    if os.path.exists(cur):
        try:
            reset = json.load(open(cur))
        except ValueError:
            return None
    else:
        if last is None:
            return None
        try:
            reset = json.loads(last)
        except ValueError:
            return None            # the line was being written when the engine died: cannot tell
    w = workdir(f"{pid}_died")
    inst = os.path.join(w, "inst.json")
    def opt(k, d=None):
        return a[a.index(k) + 1] if k in a else d
    if err.name == "par":
        json.dump([{"inst": reset["inst"], "cfg": reset["cfg"], "role": reset.get("role", "job")}], open(inst, "w"))
        args = ["--jobs", inst, "--out", os.path.join(w, "alone.ndjson")]
    else:
        json.dump([reset["inst"]], open(inst, "w"))
        args = ["--seed", opt("--seed", "1"), "--inst-file", inst, "--out", os.path.join(w, "alone.ndjson")]
        for k in ("--mode", "--family", "--maxn", "--per-instance", "--dd", "--cfg"):
            if opt(k) is not None and not (k == "--cfg" and err.name == "seq" and reset.get("cfg")):
                args += [k, opt(k)]
        if err.name == "seq" and reset.get("cfg"):
            args += ["--cfg", json.dumps({k: reset["cfg"][k] for k in ("dd", "fringe", "width")})]
        if err.name == "dd" and "--callbacks" in a:
            args.append("--callbacks")
    died = 0
    for _ in range(2):
        try:
            run_bin(err.name, args, timeout=90, check=False)
        except EngineDied:
            died += 1
    if died < 2:
        return None
    return {"engine": err.name, "args": [str(x) for x in args], "inst": reset["inst"], "cfg": reset.get("cfg"), "how": err.how,
            "note": "the engine dies on this instance alone, twice: the library does not return (hang) or exhausts the memory"}


# ----------------------------------------------------------------------------- TLC
def find_cm():
    # CommunityModules are on the tlc wrapper's classpath; find the jar(s) for direct java invocations
    d = os.path.dirname(JAR)
    return [os.path.join(d, f) for f in os.listdir(d) if f.endswith(".jar")]


def tlc(module, cfg, env=None, workers=4, extra=None, timeout=3600, heap="4g", dfs=False, metaname=None, cwd=SPEC):
    """run TLC; returns dict(out, states, distinct, coverage, results, error, ok)"""
    meta = os.path.join(WORK, "tlcmeta", metaname or (module + "_" + os.path.basename(cfg) + "_" + str(os.getpid())))
    shutil.rmtree(meta, ignore_errors=True)
    os.makedirs(meta, exist_ok=True)
    jopts = ["-Xss1g", f"-Xmx{heap}", "-XX:+UseParallelGC"]
    if dfs:
        jopts.append("-Dtlc2.tool.queue.IStateQueue=StateDeque")
    cp = JAR + ":" + CM
    cmd = ["java"] + jopts + ["-cp", cp, "tlc2.TLC", "-workers", str(workers), "-metadir", meta, "-cleanup", "-noGenerateSpecTE",
                              "-config", cfg] + (extra or []) + [module]
    e = dict(os.environ)
    if env:
        e.update({k: str(v) for k, v in env.items()})
    t0 = time.time()
    try:
        p = subprocess.run(cmd, cwd=cwd, env=e, capture_output=True, text=True, timeout=timeout)
    except subprocess.TimeoutExpired:
        shutil.rmtree(meta, ignore_errors=True)
        raise ToolError(f"TLC timed out after {timeout}s on {module} {cfg}")
    shutil.rmtree(meta, ignore_errors=True)
    out = p.stdout
    r = {"out": out, "wall": time.time() - t0, "rc": p.returncode}
    m = re.search(r"(\d+) states generated, (\d+) distinct states found", out)
    r["states"] = int(m.group(2)) if m else 0
    r["generated"] = int(m.group(1)) if m else 0
    r["results"] = [json.loads(json.loads('"' + x + '"')) if False else x for x in re.findall(r'<<"RESULT", "(.*)">>', out)]
    r["results"] = [json.loads(bytes(x, "utf-8").decode("unicode_escape")) for x in r["results"]]
    r["violated"] = re.findall(r"Invariant (\S+) is violated|property (\S+) (?:is|was) violated", out)
    r["error"] = bool(re.search(r"Error:|Exception|is violated|was violated", out))
    r["parse_error"] = "Parsing or semantic analysis failed" in out or "ConfigFileException" in out
    return r


def tlc_coverage(out):
    """per-action counts from `-coverage 1` output: {action: (distinct, total)}"""
    cov = {}
    for m in re.finditer(r"<(\w+) line \d+, col \d+ to line \d+, col \d+ of module (\w+)>: (\d+):(\d+)", out):
        cov[m.group(1)] = (int(m.group(3)), int(m.group(4)))
    return cov


def mc(module, cfg, workers=8, timeout=3600, env=None, extra=None, require_actions=True, heap="8g", coverage=True):
    """model-check a generative configuration; specification-level failure = tool error (never a VIOLATION).
    coverage=False: no per-action statistics (TLC's coverage collection costs up to 10x on specifications with large recursive operators)"""
    r = tlc(module, cfg, env=env, workers=workers, extra=(["-coverage", "1"] if coverage else []) + (extra or []), timeout=timeout, heap=heap)
    if r["parse_error"] or r["states"] == 0 or "Model checking completed. No error has been found." not in r["out"]:
        log(r["out"][-3000:])
        raise ToolError(f"specification-level failure in {module} / {cfg} (see DESIGN.md 8: investigated, never suppressed)")
    cov = tlc_coverage(r["out"]) if coverage else {}
    r["cov"] = cov
    if require_actions and coverage:
        zero = [a for a, (d, t) in cov.items() if t == 0 and not a.startswith("Init")]
        if zero:
            raise ToolError(f"vacuity guard: actions never taken in {module}/{cfg}: {zero}")
    return r


def simulate(module, cfg, num, depth, workers=8, timeout=1800, env=None):
    """TLC simulation mode (random behaviours) for configurations whose exhaustive model no longer finishes"""
    r = tlc(module, cfg, env=env, workers=workers, extra=["-simulate", f"num={num}", "-depth", str(depth)], timeout=timeout)
    m = re.search(r"The number of states generated: (\d+)", r["out"])
    r["generated"] = int(m.group(1)) if m else 0
    r["states"] = r["generated"]
    if r["error"] or r["generated"] == 0:
        log(r["out"][-3000:])
        raise ToolError(f"specification-level failure in simulation of {module} / {cfg}")
    m = re.search(r"(\d+) traces generated", r["out"])
    r["traces"] = int(m.group(1)) if m else 0
    return r


def dump_graph(module, cfg, name, workers=4, timeout=600, env=None):
    d = os.path.join(WORK, "graphs")
    os.makedirs(d, exist_ok=True)
    base = os.path.join(d, name)
    r = tlc(module, cfg, env=env, workers=workers, extra=["-dump", "dot,actionlabels", base], timeout=timeout)
    if "No error has been found" not in r["out"]:
        log(r["out"][-3000:])
        raise ToolError(f"graph dump failed for {module}/{cfg}")
    return base + ".dot", r


EDGE = re.compile(r'^(-?\d+) -> (-?\d+) \[label="(.*?)",color')
NODE = re.compile(r'^(-?\d+) \[label="(.*?)"(,style = filled)?\]')


def parse_dot(path, want_labels=False):
    edges, init, labels = [], [], {}
    with open(path) as f:
        for line in f:
            m = EDGE.match(line)
            if m:
                edges.append((m.group(1), m.group(2), m.group(3).replace('\\"', '"')))
                continue
            m = NODE.match(line)
            if m:
                if m.group(3):
                    init.append(m.group(1))
                if want_labels:
                    labels[m.group(1)] = m.group(2)
    return edges, init, labels


def edge_cover(edges, inits, max_len=60, rng=None, key=lambda lab: lab, max_paths=None):
    """paths (lists of edge labels) from an initial state covering every edge of the graph at least once.
    Greedy: walk uncovered edges as long as possible, jump to the nearest uncovered edge by BFS otherwise."""
    from collections import defaultdict, deque
    rng = rng or random.Random(SEED)
    out = defaultdict(list)
    for i, (a, b, lab) in enumerate(edges):
        out[a].append(i)
    for a in out:
        rng.shuffle(out[a])
    covered = [False] * len(edges)
    ncov = 0
    paths = []
    # BFS parents from init for prefix computation
    parent = {}
    dq = deque()
    for s in inits:
        parent[s] = None
        dq.append(s)
    while dq:
        u = dq.popleft()
        for i in out.get(u, []):
            v = edges[i][1]
            if v not in parent:
                parent[v] = (u, i)
                dq.append(v)

    def prefix(u):
        p = []
        while parent[u] is not None:
            u, i = parent[u]
            p.append(i)
        return p[::-1]
    order = [i for i in range(len(edges)) if edges[i][0] in parent]
    rng.shuffle(order)
    unreachable = len(edges) - len(order)
    for i0 in order:
        if covered[i0]:
            continue
        path = prefix(edges[i0][0]) + [i0]
        u = edges[i0][1]
        while len(path) < max_len:
            nxt = [i for i in out.get(u, []) if not covered[i] and i not in path]
            if not nxt:
                break
            i = nxt[0]
            path.append(i)
            u = edges[i][1]
        for i in path:
            if not covered[i]:
                covered[i] = True
                ncov += 1
        paths.append([key(edges[i][2]) for i in path])
        if max_paths and len(paths) >= max_paths:
            break
    return paths, {"edges": len(edges), "covered": ncov, "unreachable": unreachable, "paths": len(paths)}


# ----------------------------------------------------------------------------- trace validation
def validate(trace_module, cfg, trace_path, dfs=False, timeout=3600, heap="4g", extra_env=None, name=None):
    """run a trace specification over an NDJSON trace; returns (result record, tlc record).
    A trace that is not consumed to the end (untagged mismatch) is a divergence -> tool error here:
    the trace specifications adopt the implementation's state on every tagged guard, so this only
    happens when an event has a shape the specification does not know."""
    env = {"TRACE": trace_path}
    if extra_env:
        env.update(extra_env)
    r = tlc(trace_module, cfg, env=env, workers=1, timeout=timeout, heap=heap, dfs=dfs, metaname=name)
    if r["parse_error"]:
        log(r["out"][-3000:])
        raise ToolError(f"trace specification {trace_module} does not parse")
    if not r["results"]:
        log(r["out"][-3000:])
        raise ToolError(f"trace validation of {trace_path} with {trace_module} produced no RESULT (TLC failed)")
    return r["results"][-1], r


def validate_chunked(trace_module, cfg, trace_path, max_bytes=7_000_000, name=None, **kw):
    """validate(), but a large trace is cut at `reset` events into chunks validated one after the other (TLC keeps the whole decoded
    trace in memory: validation time grows faster than linearly beyond ~10 MB). Chunks start with a reset event, which re-initialises
    everything a trace specification carries from run to run except paired-run references (base run of a variant, previous outcome of a
    cutoff series): a cut is therefore only made at a reset whose role is not 'variant' / 'cut'. Line numbers in the combined result
    refer to the whole trace."""
    if os.path.getsize(trace_path) <= max_bytes:
        return validate(trace_module, cfg, trace_path, name=name, **kw)
    chunks, cur, size, first_line, lineno = [], [], 0, 1, 0
    with open(trace_path) as f:
        for l in f:
            lineno += 1
            if size > max_bytes and '"ev":"reset"' in l[:400 + l.find('"ev"') if l.find('"ev"') >= 0 else 0] and '"ev":"reset"' in l:
                role = re.search(r'"role":"(\w+)"', l)
                if not role or role.group(1) not in ("variant", "cut"):
                    chunks.append((first_line, cur))
                    cur, size, first_line = [], 0, lineno
            cur.append(l)
            size += len(l)
    chunks.append((first_line, cur))
    devs, total, states, last_r = [], 0, 0, None
    for k, (fl, lines) in enumerate(chunks):
        part = f"{trace_path}.part{k}"
        with open(part, "w") as f:
            f.writelines(lines)
        res, r = validate(trace_module, cfg, part, name=(name or os.path.basename(trace_path)) + f"_p{k}", **kw)
        os.remove(part)
        if res["total"] != len(lines):
            raise ToolError(f"trace length mismatch in chunk {k} of {trace_path}")
        for d in res.get("devs", []):
            d = list(d)
            d[1] = d[1] + fl - 1
            devs.append(d)
        total += res["total"]
        states += r["states"]
        last_r = r
    last_r = dict(last_r, states=states)
    return {"total": total, "devs": devs}, last_r


def count_lines(path):
    with open(path) as f:
        return sum(1 for _ in f)


def read_ndjson(path):
    with open(path) as f:
        return [json.loads(x) for x in f if x.strip()]


def split_runs(events):
    runs, cur = [], None
    for e in events:
        if e.get("ev") == "reset":
            cur = [e]
            runs.append(cur)
        elif cur is not None:
            cur.append(e)
    return runs


# ----------------------------------------------------------------------------- verdicts and evidence
def load_known():
    p = os.path.join(VERIF, "known_findings.json")
    if not os.path.exists(p):
        return []
    return json.load(open(p)).get("known", [])


class Check:
    def __init__(self, pid, tier, level="model_checking"):
        self.pid, self.tier, self.level = pid, tier, level
        self.t0 = time.time()
        self.violations = []       # (tag, replay path, description)
        self.known_hits = []
        self.cov = {"evaluations": 0, "distinct_nontrivial": 0, "states": 0, "transitions": 0, "traces_validated_against_impl": 0,
                    "samples": [], "rule": "", "configs": [], "divergences": 0}
        self.assumptions = []
        os.makedirs(EVID, exist_ok=True)

    def add_mc(self, name, r, constants=""):
        self.cov["states"] += r["states"]
        self.cov["transitions"] += r["generated"]
        self.cov["configs"].append({"config": name, "distinct_states": r["states"], "states_generated": r["generated"], "constants": constants,
                                    "wall_s": round(r["wall"], 1),
                                    "actions": {a: v[1] for a, v in r.get("cov", {}).items()}})

    def violation(self, tag, replay_obj, desc, signature=None):
        """tag must start with the property id it belongs to"""
        pid = tag.split()[0]
        if pid != self.pid:
            return  # another property's business: its own check reports it
        for k in load_known():
            if self.pid in k.get("properties", [k.get("property")]) and k.get("status", "open") == "open" and signature is not None and k["signature"] == signature:
                self.known_hits.append((k, desc))
                return
        d = os.path.join(REPLAYS, self.pid)
        os.makedirs(d, exist_ok=True)
        if len(self.violations) >= 8:
            return
        h = hashlib.sha1(json.dumps({k: v for k, v in replay_obj.items() if k != "line"}, sort_keys=True).encode()).hexdigest()[:10]
        path = os.path.join(d, f"{self.tier}_{h}.json")
        with open(path, "w") as f:
            json.dump({"property": self.pid, "tag": tag, "description": desc, "replay": replay_obj}, f, indent=1)
        self.violations.append((tag, path, desc))

    def finish(self):
        seen = set()
        for k, desc in self.known_hits:
            if k["id"] not in seen:
                print(f"KNOWN-FINDING: property={self.pid} {k['id']}: {k['what']}")
                seen.add(k["id"])
        ev = {"property_id": self.pid, "tier": self.tier, "seed": SEED, "level": self.level, "coverage": self.cov,
              "assumptions": self.assumptions, "wall_s": round(time.time() - self.t0, 1), "violations": len(self.violations),
              "known_findings_hit": sorted(seen)}
        if self.cov["distinct_nontrivial"] < 2 and self.cov["evaluations"] >= 2:
            pass
        with open(os.path.join(EVID, f"{self.pid}.json"), "w") as f:
            json.dump(ev, f, indent=1)
        shown = set()
        for tag, path, desc in self.violations:
            if path in shown:
                continue
            shown.add(path)
            print(f"VIOLATION property={self.pid} replay={path}")
            log(f"  {tag}: {desc}")
        return 1 if self.violations else 0
