"""C16: the shipped example programs, run on generated instance files in their own input formats,
their printed objective compared by TLC with the declarative optimum of spec/Examples.tla."""
import json, os, random, subprocess, time
from concurrent.futures import ThreadPoolExecutor
from vlib import *

EX_TARGET = os.path.join(WORK, "ex_target")
ALL = ["knapsack", "misp", "max2sat", "mcp", "lcs", "golomb", "sop", "tsptw", "srflp", "talentsched", "psp", "alp"]


def build_examples():
    env = dict(os.environ, CARGO_NET_OFFLINE="true", CARGO_TARGET_DIR=EX_TARGET)
    t0 = time.time()
    p = subprocess.run(["cargo", "build", "--offline", "--release", "--examples", "-p", "ddo"], cwd=REPO, env=env, capture_output=True, text=True)
    if p.returncode != 0:
        log(p.stderr[-3000:])
        raise ToolError("the example programs do not build")
    log(f"[build] examples built in {time.time()-t0:.1f}s")
    return os.path.join(EX_TARGET, "release", "examples")


# ------------------------------------------------------------------ instance generators: (json for TLC, file text, extra args)
def g_knapsack(r, big):
    n = r.randint(1, 8 if not big else 9)
    profit = [r.randint(0, 12) for _ in range(n)]
    weight = [r.randint(1, 9) for _ in range(n)]
    cap = r.randint(0, max(1, sum(weight) * 2 // 3))
    # now and then the same instance in large units (profits x 10^9, weights and capacity x 10^9 -- well within i64, one by one):
    # the oracle works on the small numbers, the printed objective must be the small optimum times the unit
    up, uw = (10 ** 9, 10 ** 9) if r.random() < 0.25 else (1, 1)
    txt = ("c generated\n" if r.random() < 0.3 else "") + f"{n} {cap * uw}\n" + "".join(f"{p * up} {w * uw}\n" for p, w in zip(profit, weight))
    return {"profit": profit, "weight": weight, "capacity": cap, "unit": up}, txt, "kp.txt"


def g_misp(r, big):
    n = r.randint(1, 7 if not big else 8)
    w = [r.randint(0, 9) for _ in range(n)]
    pden = r.choice([0.2, 0.4, 0.7])
    edges = [[u, v] for u in range(1, n + 1) for v in range(u + 1, n + 1) if r.random() < pden]
    txt = "c generated\n" + f"p edge {n} {len(edges)}\n" + "".join(f"n {i+1} {x}\n" for i, x in enumerate(w) if x != 1 or r.random() < 0.5) + "".join(f"e {u} {v}\n" for u, v in edges)
    return {"weight": w, "edges": edges}, txt, "g.clq"


def g_max2sat(r, big):
    n = r.randint(2, 5 if not big else 6)
    seen, clauses = set(), []
    for _ in range(r.randint(1, 3 * n)):
        kind = r.random()
        a = r.randint(1, n) * r.choice([1, -1])
        if kind < 0.15:
            b = a                      # unit clause
        elif kind < 0.25:
            b = -a                     # tautology
        else:
            b = r.randint(1, n) * r.choice([1, -1])
        key = (min(a, b), max(a, b))
        if key in seen:
            continue                   # a repeated clause overwrites: generate each clause once
        seen.add(key)
        clauses.append([r.randint(1, 9), a, b])
    txt = f"p wcnf {n} {len(clauses)}\n" + "".join((f"{w} {a} 0\n" if a == b else f"{w} {a} {b} 0\n") for w, a, b in clauses)
    return {"n": n, "clauses": clauses}, txt, "f.wcnf"


def g_mcp(r, big):
    n = r.randint(2, 6 if not big else 7)
    edges = [[u, v, r.randint(-6, 9)] for u in range(1, n + 1) for v in range(u + 1, n + 1) if r.random() < 0.6]
    txt = "c generated\n" + f"{n} {len(edges)}\n" + "".join(f"{u} {v} {w}\n" for u, v, w in edges)
    return {"n": n, "edges": edges}, txt, "g.mcp"


def g_lcs(r, big):
    k = r.randint(2, 3)
    alpha = r.randint(2, 3)
    strings = [[r.randint(1, alpha) for _ in range(r.randint(1, 6) if not big else r.randint(5, 10))] for _ in range(k)]
    # the program uses the shortest string as the variable source; the oracle enumerates subsequences of the first: put a shortest one first
    strings.sort(key=len)
    txt = f"{k} {alpha}\n" + "\n".join(f"{len(s)} " + "".join("abc"[c - 1] for c in s) for s in strings) + "\n"
    return {"strings": strings}, txt, "s.lcs"


def g_golomb(r, big, n=None):
    n = n or r.randint(1, 5)
    return {"n": n, "bound": {1: 1, 2: 2, 3: 5, 4: 8, 5: 13, 6: 19}[n]}, None, str(n)


def g_sop(r, big):
    n = r.randint(2, 6 if not big else 7)
    # random acyclic precedences among the middle nodes (by a hidden order), first before all, last after all
    hidden = list(range(1, n - 1))
    r.shuffle(hidden)
    d = [[0 if i == j else r.randint(1, 20) for j in range(n)] for i in range(n)]
    for i in range(n):
        if i != n - 1:
            d[n - 1][i] = -1
        if i != 0:
            d[i][0] = -1
    for a in range(len(hidden)):
        for b in range(a + 1, len(hidden)):
            if r.random() < 0.3:
                d[hidden[b]][hidden[a]] = -1      # hidden[a] must precede hidden[b]
    txt = ("NAME: gen.sop\nTYPE: SOP\n" if r.random() < 0.5 else "") + "EDGE_WEIGHT_SECTION\n" + f"{n}\n" + "".join(" ".join(str(x) for x in row) + "\n" for row in d) + "EOF\n"
    return {"d": d}, txt, "p.sop"


def g_tsptw(r, big):
    n = r.randint(2, 5 if not big else 6)
    pts = [(r.randint(0, 9), r.randint(0, 9)) for _ in range(n)]
    d = [[abs(a[0] - b[0]) + abs(a[1] - b[1]) for b in pts] for a in pts]     # Manhattan: metric
    if r.random() < 0.6:
        # asymmetric but metric: shortest-path closure of a random asymmetric matrix (one-way streets)
        d = [[0 if i == j else r.randint(1, 25) for j in range(n)] for i in range(n)]
        for k in range(n):
            for i in range(n):
                for j in range(n):
                    d[i][j] = min(d[i][j], d[i][k] + d[k][j])
    tw = [[0, 400]]
    for i in range(1, n):
        e = r.randint(0, 30)
        tw.append([e, e + r.randint(5, 60)])
    if r.random() < 0.2:
        tw[r.randrange(1, n)][1] = r.randint(0, 6)            # possibly infeasible
    txt = "# generated\n" + f"{n}\n" + "".join(" ".join(str(x) for x in row) + "\n" for row in d) + "".join(f"{a} {b}\n" for a, b in tw)
    return {"d": d, "tw": tw}, txt, "t.txt"


def g_srflp(r, big):
    n = r.randint(2, 5 if not big else 6)
    ln = [r.randint(1, 6) for _ in range(n)]
    f = [[0] * n for _ in range(n)]
    for i in range(n):
        for j in range(i + 1, n):
            f[i][j] = f[j][i] = r.randint(0, 5)
    sep = r.choice([" ", ","])
    txt = f"{n}\n" + sep.join(map(str, ln)) + "\n" + "".join(sep.join(map(str, row)) + "\n" for row in f)
    return {"len": ln, "flow": f}, txt, "f.txt"


def g_talent(r, big):
    ns, na = r.randint(2, 5 if not big else 6), r.randint(1, 4)
    plays = [[1 if r.random() < 0.5 else 0 for _ in range(ns)] for _ in range(na)]
    for row in plays:
        if not any(row):
            row[r.randrange(ns)] = 1
    cost = [r.randint(1, 9) for _ in range(na)]
    dur = [r.randint(1, 4) for _ in range(ns)]
    txt = "generated instance\n" + (f"{ns} {na}\n" if r.random() < 0.5 else f"{ns}\n{na}\n") + "\n" + "".join(" ".join(map(str, row)) + f"  {c}\n" for row, c in zip(plays, cost)) + "\n" + " ".join(map(str, dur)) + "\n"
    return {"plays": plays, "cost": cost, "duration": dur}, txt, "s.txt"


def g_psp(r, big):
    T, NI = r.randint(2, 6 if not big else 7), r.randint(1, 2)
    demand = [[0] * T for _ in range(NI)]
    # at most one demand per period overall keeps most instances feasible; sometimes overload on purpose
    for t in range(T):
        if r.random() < 0.55:
            demand[r.randrange(NI)][t] = 1
    if r.random() < 0.15:
        demand[0][0] = 1
        if NI > 1:
            demand[1][0] = 1
    ch = [[0 if i == j else r.randint(1, 6) for j in range(NI)] for i in range(NI)]
    st = [r.randint(0, 4) for _ in range(NI)]
    nd = sum(map(sum, demand))
    txt = f"{T}\n{NI}\n{nd}\n\n" + "".join(" ".join(map(str, row)) + "\n" for row in ch) + "\n" + " ".join(map(str, st)) + "\n\n" + "".join(" ".join(map(str, row)) + "\n" for row in demand) + "\n0\n"
    return {"periods": T, "stocking": st, "changeover": ch, "demand": demand}, txt, "p.txt"


def g_alp(r, big):
    n, C, R = r.randint(1, 4 if not big else 5), r.randint(1, 3), r.randint(1, 2)
    # separations satisfying the triangle inequality, NOT symmetric in general: base + a surcharge of the follower's class
    # + (for some instances) a surcharge of the leader's class; sep[a][c] <= sep[a][b] + sep[b][c] holds since every entry is in [base, 2 base]
    base = r.randint(2, 5)
    extra = [r.randint(0, base // 2) for _ in range(C)]
    lead = [r.randint(0, base - base // 2) if r.random() < 0.5 else 0 for _ in range(C)]
    sep = [[base + extra[j] + lead[i] for j in range(C)] for i in range(C)]
    cls = sorted(r.randrange(C) for _ in range(n))
    air = []
    for c in range(C):
        k = cls.count(c)
        tg = sorted(r.randint(0, 8) for _ in range(k))
        slack = sorted(r.randint(0, 10) for _ in range(k))
        lat = [tg[i] + slack[i] for i in range(k)]
        lat = [max(lat[:i + 1]) for i in range(k)]                 # non-decreasing latest within the class
        air += [[tg[i], lat[i], c] for i in range(k)]
    r.shuffle(air)
    # file order must keep each class sorted by target and latest: stable sort by (target, latest) inside classes
    air.sort(key=lambda a: (a[0], a[1]))
    txt = f"{n} {C} {R}\n" + "".join(f"{a[0]} {a[1]} {a[2]}\n" for a in air) + "".join(" ".join(map(str, row)) + "\n" for row in sep)
    return {"aircraft": air, "runways": R, "sep": sep}, txt, "a.txt"


GEN = {"knapsack": g_knapsack, "misp": g_misp, "max2sat": g_max2sat, "mcp": g_mcp, "lcs": g_lcs, "golomb": g_golomb, "sop": g_sop, "tsptw": g_tsptw,
       "srflp": g_srflp, "talentsched": g_talent, "psp": g_psp, "alp": g_alp}
THREADS = {"misp", "lcs", "alp", "sop", "srflp", "talentsched", "tsptw"}          # examples whose -t is a thread count that is honoured
FILEFLAG = {"max2sat", "mcp"}


def parse_out(ex, out):
    """-> (objective as the integer TLC compares, aborted) or None"""
    try:
        if ex == "tsptw":
            kv = {l.split(":", 1)[0].strip(): l.split(":", 1)[1].strip() for l in out.splitlines() if ":" in l}
            aborted = kv["status"] != "Proved"
            v = kv["lower bnd"]
            return (-1 if v == "+inf" else int(round(float(v))), aborted)
        kv = {l.split(":", 1)[0].strip(): l.split(":", 1)[1].strip() for l in out.splitlines() if ":" in l}
        aborted = kv["Aborted"] != "false"
        o = kv["Objective"]
        if ex == "srflp":
            return (int(round(float(o) * 2)), aborted)
        return (int(o), aborted)
    except Exception:
        return None


def run_example(bindir, ex, path_or_arg, width, threads, unit=1):
    exe = os.path.join(bindir, ex)
    args = []
    if width is not None:
        args += ["-w", str(width)]
    if threads is not None and ex in THREADS:
        args += ["-t", str(threads)]
    args += (["-f", path_or_arg] if ex in FILEFLAG else [path_or_arg])
    try:
        p = subprocess.run([exe] + args, capture_output=True, text=True, timeout=30)
    except subprocess.TimeoutExpired:
        return {"ev": "exrun", "args": args, "status": "hang", "objective": 0, "aborted": False}
    if p.returncode != 0:
        return {"ev": "exrun", "args": args, "status": "crash", "objective": 0, "aborted": False, "rc": p.returncode, "stderr": p.stderr[-300:]}
    po = parse_out(ex, p.stdout)
    if po is None:
        return {"ev": "exrun", "args": args, "status": "unparsable", "objective": 0, "aborted": False, "stdout": p.stdout[-300:]}
    obj = po[0]
    if unit != 1:
        obj = obj // unit if obj % unit == 0 else -777777          # not a multiple of the unit: certainly not the optimum
    return {"ev": "exrun", "args": args, "status": "ok", "objective": obj, "aborted": po[1]}


def c16(tier, replay):
    chk = Check("C16", tier)
    w = workdir("C16")
    thorough = tier == "thorough"
    bindir = build_examples()
    r = random.Random(SEED * 7919 + 16)
    per_ex = 60 if not thorough else 240
    jobs = []      # (run, ex, inst, file/arg, [(width, threads)...])
    if replay:
        rp = json.load(open(replay))["replay"]
        insts = [(rp["ex"], rp["inst"], rp["file_text"], rp["file_name"])]
    else:
        insts = []
        for ex in ALL:
            for k in range(per_ex):
                if ex == "golomb":
                    if k >= (5 if not thorough else 6):
                        break
                    inst, txt, name = g_golomb(r, thorough, n=k + 1)
                else:
                    inst, txt, name = GEN[ex](r, thorough and k % 3 == 0)
                insts.append((ex, inst, txt, name))
    run = 0
    for ex, inst, txt, name in insts:
        d = os.path.join(w, f"i{run}")          # a named parent directory (tsptw needs one; no "Cl" in the path: srflp clearance quirk)
        os.makedirs(d, exist_ok=True)
        arg = name
        if txt is not None:
            arg = os.path.join(d, name)
            with open(arg, "w") as f:
                f.write(txt)
        confs = [(None, 1), (1, 2), (2, 4), (3, 1)] if ex != "golomb" else [(None, None), (1, None), (3, None)]
        if not thorough:
            confs = confs[:3] if run % 2 == 0 else [confs[0], confs[3]] if ex != "golomb" else confs[:2]
        jobs.append((run, ex, inst, txt, name, arg, confs))
        run += 1

    def one(job):
        run, ex, inst, txt, name, arg, confs = job
        return job, [run_example(bindir, ex, arg, wd, th, unit=(inst.get("unit", 1) if isinstance(inst, dict) else 1)) for wd, th in confs]
    # ---- differential sweep: many more instances, each solved with a narrow, the default and a very large width; the runs of an instance
    # must print the same objective.  Instances whose runs disagree (or crash / hang / abort) join the jobs that TLC judges below -- the sweep
    # itself never decides anything, it only selects candidates for the oracle.
    sweep = {"instances": 0, "runs": 0, "suspects": 0, "per_example": {}}
    if not replay:
        r2 = random.Random(SEED * 104729 + 16)
        per_sweep = int(os.environ.get("VERIF_C16_SWEEP", 600 if not thorough else 6000))       # the variable: development only
        sconfs = [(1, 1), (None, 1), (2, 1), (100000, 1)]
        sjobs = []
        only = os.environ.get("VERIF_C16_EXAMPLES")                                              # development only
        for ex in ALL:
            if ex == "golomb" or (only and ex not in only.split(",")):
                continue
            # more instances for the examples whose repaired defects (D5 in lcs, D8, D9, D10) showed on 10^-3 .. 3 10^-4 of the instances only
            boost = {"tsptw": 5, "sop": 6, "lcs": 3, "talentsched": 12}.get(ex, 1) if "VERIF_C16_SWEEP" not in os.environ else 1
            for k in range(per_sweep * boost):
                inst, txt, name = GEN[ex](r2, k % 2 == 0)
                d = os.path.join(w, f"s{len(sjobs)}")
                os.makedirs(d, exist_ok=True)
                arg = os.path.join(d, name)
                with open(arg, "w") as f:
                    f.write(txt)
                sjobs.append((-1, ex, inst, txt, name, arg, sconfs))
        with ThreadPoolExecutor(max_workers=12) as pool:
            sres = list(pool.map(one, sjobs))
        for job, outs in sres:
            ex = job[1]
            sweep["instances"] += 1
            sweep["runs"] += len(outs)
            sweep["per_example"][ex] = sweep["per_example"].get(ex, 0) + 1
            if len({(o["status"], o["objective"], o["aborted"]) for o in outs}) > 1 or any(o["status"] != "ok" or o["aborted"] for o in outs):
                sweep["suspects"] += 1
                jobs.append((run, ex, job[2], job[3], job[4], job[5], sconfs))
                run += 1
        import shutil as _sh
        for job, outs in sres:
            if not any(j[5] == job[5] for j in jobs):
                _sh.rmtree(os.path.dirname(job[5]), ignore_errors=True)
    with ThreadPoolExecutor(max_workers=4) as pool:
        results = list(pool.map(one, jobs))
    tr = os.path.join(w, "examples.ndjson")
    byrun = {}
    with open(tr, "w") as f:
        for (run, ex, inst, txt, name, arg, confs), outs in results:
            f.write(json.dumps({"ev": "reset", "run": run, "ex": ex, "inst": inst}) + "\n")
            for o in outs:
                f.write(json.dumps(o) + "\n")
            byrun[run] = (ex, inst, txt, name, outs)
    res, rr = validate("TraceExamples", "TraceExamples.cfg", tr, heap="6g", timeout=3600)
    evs = read_ndjson(tr)
    if res["total"] != len(evs):
        raise ToolError("trace length mismatch")
    chk.cov["states"] += rr["states"]
    chk.cov["transitions"] += len(evs)
    chk.cov["traces_validated_against_impl"] += len(byrun)
    nruns = sum(len(v[4]) for v in byrun.values())
    chk.cov["evaluations"] += nruns
    chk.cov["distinct_nontrivial"] = len({json.dumps([v[0], v[1]], sort_keys=True) for v in byrun.values()})
    chk.cov["examples_covered"] = sorted({v[0] for v in byrun.values()})
    chk.cov["runs_per_example"] = {ex: sum(len(v[4]) for v in byrun.values() if v[0] == ex) for ex in ALL}
    chk.cov["differential_sweep"] = sweep
    for d in res["devs"]:
        tag, line, run, ex = d[0], d[1], d[2], d[3]
        exn, inst, txt, name, outs = byrun[run]
        e = evs[line - 1]
        chk.violation(tag, {"engine": "ex", "ex": exn, "inst": inst, "file_text": txt, "file_name": name, "args": e.get("args"), "printed": e.get("objective"), "status": e.get("status")},
                      f"{tag}: {exn} {' '.join(e.get('args', []))} printed {e.get('objective')} (status {e.get('status')}); instance {json.dumps(inst)[:300]}",
                      signature=f"{exn}:{tag.split()[-1]}")
    some = results[len(results) // 3]
    chk.cov["samples"] = [{"example": some[0][1], "instance_file": some[0][3], "runs": some[1][:2]}]
    chk.cov["rule"] = ("for each of the 12 shipped examples: seeded random small instances written in the example's own file format (parser covered; well-formedness conditions of the model respected: "
                       "non-negative profits/weights, metric travel times, sorted aircraft classes with triangle-inequality separations, acyclic precedences with the last node after all, ...), "
                       "the release binary run with widths {default, 1, 2, 3} x threads {1, 2, 4} (where the option is honoured), 30 s watchdog; the printed objective is compared by TLC with the "
                       "declarative optimum of Examples.tla (brute force over subsets / assignments / subsequences / permutations / schedules); non-trivial = every instance; distinct = distinct (example, instance). "
                       "Differential sweep: a larger set of generated instances is solved with widths {1, default, 2, 100000}; instances whose runs disagree, crash, hang or abort are added to the set TLC judges "
                       "(the sweep selects candidates, TLC alone decides)")
    chk.assumptions = ["instance writers and the output parser of tools/examples.py are trusted", "sizes are bounded by what TLC can enumerate (<= 9 items, <= 8 vertices, <= 7 jobs ...)",
                       "max2sat / mcp always use all hardware threads (no option)"]
    return chk.finish()


CHECKS = {"C16": c16}
