#!/usr/bin/env python3
"""Entry point of every check:  tools/check.py <property id> <quick|thorough>  [--replay <file>]"""
import sys, os, json, time
sys.path.insert(0, os.path.dirname(os.path.abspath(__file__)))
from vlib import *
import components


def main():
    if len(sys.argv) < 3:
        print("usage: check.py <Cxx> <quick|thorough> [--replay file]", file=sys.stderr)
        return 2
    pid, tier = sys.argv[1], sys.argv[2]
    replay = sys.argv[sys.argv.index("--replay") + 1] if "--replay" in sys.argv else None
    os.environ["VERIF_TIER"] = tier
    table = {}
    table.update(components.CHECKS)
    try:
        import ddcheck
        table.update(ddcheck.CHECKS)
    except ImportError:
        pass
    try:
        import solvers
        table.update(solvers.CHECKS)
    except ImportError:
        pass
    try:
        import examples
        table.update(examples.CHECKS)
    except ImportError:
        pass
    if pid not in table:
        print(f"no check for {pid}", file=sys.stderr)
        return 2
    try:
        return table[pid](tier, replay)
    except ToolError as e:
        print(f"TOOL-ERROR: {e}", file=sys.stderr)
        return 2


if __name__ == "__main__":
    sys.exit(main())
