#!/usr/bin/env python3
"""Entry point of every check:  tools/check.py <property id> <quick|thorough>  [--replay <file>]"""
import sys, os, json, time
sys.path.insert(0, os.path.dirname(os.path.abspath(__file__)))
from vlib import *
import components


def main():
    if len(sys.argv) < 3:
        print("usage: check.py <Cxx> <quick|thorough> [--replay file]", file=sys.stderr)
        return 2
    pid, tier = sys.argv[1], sys.argv[2]
    replay = sys.argv[sys.argv.index("--replay") + 1] if "--replay" in sys.argv else None
    os.environ["VERIF_TIER"] = tier
    table = {}
    table.update(components.CHECKS)
    try:
        import ddcheck
        table.update(ddcheck.CHECKS)
    except ImportError:
        pass
    try:
        import solvers
        table.update(solvers.CHECKS)
    except ImportError:
        pass
    try:
        import examples
        table.update(examples.CHECKS)
    except ImportError:
        pass
    if pid not in table:
        print(f"no check for {pid}", file=sys.stderr)
        return 2
    t0 = time.time()
    try:
        return table[pid](tier, replay)
    except EngineDied as e:
        # a hang / memory exhaustion of the code under test is data -- provided it reproduces on the instance alone
        rp = reproduce_engine_death(pid, tier, e)
        if rp is None:
            print(f"TOOL-ERROR: {e} (not reproducible on the last instance alone)", file=sys.stderr)
            return 2
        tag = f"{pid} library-hangs-or-exhausts-memory"
        d = os.path.join(REPLAYS, pid)
        os.makedirs(d, exist_ok=True)
        path = os.path.join(d, f"{tier}_died.json")
        json.dump({"property": pid, "tag": tag, "description": str(e), "replay": rp}, open(path, "w"), indent=1)
        ev = {"property_id": pid, "tier": tier, "seed": SEED, "level": "model_checking",
              "coverage": {"evaluations": 1, "distinct_nontrivial": 1, "states": 0, "transitions": 0, "traces_validated_against_impl": 0,
                           "rule": "the check stopped at the first engine that was killed / timed out; the instance it was working on was run again alone, twice, and the engine died both times",
                           "samples": [rp]},
              "assumptions": ["memory limit 12 GB and 90 s per isolated run"], "wall_s": round(time.time() - t0, 1), "violations": 1}
        json.dump(ev, open(os.path.join(EVID, f"{pid}.json"), "w"), indent=1)
        print(f"VIOLATION property={pid} replay={path}")
        print(f"  {tag}: {e}", file=sys.stderr)
        return 1
    except ToolError as e:
        print(f"TOOL-ERROR: {e}", file=sys.stderr)
        return 2


if __name__ == "__main__":
    sys.exit(main())
