#!/bin/bash
# Development aid (not a check): line coverage of /repo/ddo/src reached by the engines during the quick checks.
# usage: tools/coverage.sh [ids...]   -> work/coverage/report.txt  (uncovered lines per file in work/coverage/show.txt)
set -e
cd /verif
T=/tmp/verif_cov_target; P=/tmp/verif_cov_prof; rm -rf $P; mkdir -p $P work/coverage
BIN=$(ls -d ~/.rustup/toolchains/nightly-x86_64-unknown-linux-gnu/lib/rustlib/*/bin)
(cd harness && RUSTFLAGS="-C instrument-coverage --cfg xgillard_ddo_verif_cov" CARGO_TARGET_DIR=$T cargo +nightly build --offline --bins 2>&1 | tail -2)
ids="${@:-C01 C02 C03 C04 C05 C06 C07 C08 C09 C10 C11 C12 C13 C14 C15 C17 C18 C19 C20}"
cp -r evidence /tmp/evidence_keep_cov
for id in $ids; do
  LLVM_PROFILE_FILE="$P/$id-%p-%m.profraw" VERIF_BIN_DIR=$T/debug python3 tools/check.py $id quick > work/coverage/$id.out 2>&1 || echo "$id rc=$?"
done
rm -rf evidence; mv /tmp/evidence_keep_cov evidence
$BIN/llvm-profdata merge -sparse $P/*.profraw -o $P/all.profdata
objs=""; for b in ds dd seq par tab; do objs="$objs -object $T/debug/$b"; done
$BIN/llvm-cov report $objs -instr-profile=$P/all.profdata --ignore-filename-regex='(registry|rustc|harness)' > work/coverage/report.txt
$BIN/llvm-cov show $objs -instr-profile=$P/all.profdata --ignore-filename-regex='(registry|rustc|harness)' --show-line-counts-or-regions > work/coverage/show.txt
rm -rf $P $T
tail -40 work/coverage/report.txt
