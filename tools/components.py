"""Component-level checks (engine `ds`): C11 fringes, C10 dominance store, C18 cache/dominance
sequential + linearisability, C17 gap, C13 width combinators."""
import re, json, os, random
from vlib import *


# ------------------------------------------------------------------ label -> operation
def fringe_op(lab):
    m = re.match(r'Push\("(\w)",(\d+),(\d+),(\d+)\)', lab)
    if m:
        return ["push", m.group(1), int(m.group(2)), int(m.group(3)), int(m.group(4))]
    if lab.startswith("Pop") or lab == "Next":   # \E over a state-dependent set is not decomposed by TLC: label "Next"
        return ["pop"]
    if lab.startswith("Clear"):
        return ["clear"]
    raise ToolError("unknown fringe label " + lab)


def cache_op(lab):
    m = re.match(r'Update\((\d+),"(\w)",(-?\d+),(TRUE|FALSE)\)', lab)
    if m:
        return ["upd", int(m.group(1)), m.group(2), int(m.group(3)), m.group(4) == "TRUE"]
    m = re.match(r'Get\((\d+),"(\w)"\)', lab)
    if m:
        return ["get", int(m.group(1)), m.group(2)]
    m = re.match(r'ClearLayer\((\d+)\)', lab)
    if m:
        return ["clear_layer", int(m.group(1))]
    if lab.startswith("Clear"):
        return ["clear"]
    raise ToolError("unknown cache label " + lab)


def dom_op(lab):
    m = re.match(r'Query\((\d+),<<(\d+), (\d+)>>,(-?\d+)\)', lab)
    if m:
        return ["q", 0, int(m.group(1)), int(m.group(2)), int(m.group(3)), int(m.group(4))]
    raise ToolError("unknown dominance label " + lab)


def devs_of(res):
    return [(d[0], d[1], d[2]) for d in res.get("devs", [])]


def run_validate(chk, module, cfg, trace, seqs_by_run, replay_base, dfs=False):
    """validate one trace file; convert tagged deviations into violations of chk's property"""
    n = count_lines(trace)
    res, r = validate(module, cfg, trace, dfs=dfs, name=f"{chk.pid}_{os.path.basename(trace)}")
    if res["total"] != n:
        raise ToolError(f"{module}: trace has {n} lines, TLC saw {res['total']}")
    if "diameter" in r["out"] and "Accepted" in r["out"] and "violated" in r["out"] and not res.get("devs"):
        raise ToolError(f"{module}: trace {trace} not consumed to the end (unknown event shape)")
    chk.cov["transitions"] += n
    chk.cov["states"] += r["states"]
    for tag, line, run in devs_of(res):
        rp = dict(replay_base)
        rp["seqs"] = [seqs_by_run[run]] if seqs_by_run and run < len(seqs_by_run) else []
        rp["line"] = line
        chk.violation(tag, rp, f"{tag} at trace line {line} (run {run}) of {os.path.basename(trace)}")
    return res


def seqs_from_graph(module, cfg, name, opfn, max_len, chk):
    dot, r = dump_graph(module, cfg, name)
    edges, inits, _ = parse_dot(dot)
    os.remove(dot)
    paths, st = edge_cover(edges, inits, max_len=max_len, key=opfn)
    chk.add_mc(cfg, r, constants=open(os.path.join(SPEC, cfg)).read().split("\n")[1])
    st["graph"] = cfg
    chk.cov.setdefault("graph_cover", []).append(st)
    return paths


# ------------------------------------------------------------------ C11
def c11(tier, replay):
    chk = Check("C11", tier)
    w = workdir("C11")
    thorough = tier == "thorough"
    if replay:
        rp = json.load(open(replay))["replay"]
        for kind in [rp["kind"]]:
            sf = os.path.join(w, "seqs.json")
            json.dump(rp["seqs"], open(sf, "w"))
            tr = os.path.join(w, "replay.ndjson")
            run_bin("ds", ["fringe", "--kind", kind, "--seqs", sf, "--out", tr])
            run_validate(chk, "TraceFringe", "TraceFringe.cfg", tr, rp["seqs"], {"engine": "ds fringe", "kind": kind})
        return chk.finish()
    # (1) the specification alone: all histories over a small alphabet, history variables on
    for kind in ["simple", "nodup"]:
        cfg = f"MC_Fringe_{kind}.cfg"
        r = mc("MC_Fringe", cfg, workers=8, require_actions=False)
        chk.add_mc(cfg, r, constants=open(os.path.join(SPEC, cfg)).read().split("\n")[1])
    # (1b) the algorithm: the hand-written indexed heap of no_duplicate.rs (NoDupHeap.tla) refines Fringe.tla and keeps its invariants
    r = mc("NoDupHeap", "MC_NoDupHeap.cfg", workers=8, require_actions=False)
    chk.add_mc("MC_NoDupHeap.cfg", r, constants=open(os.path.join(SPEC, "MC_NoDupHeap.cfg")).read().split("\n")[1])
    if thorough:
        r = mc("NoDupHeap", "MC_NoDupHeap_ops6.cfg", workers=12, require_actions=False, timeout=3600)
        chk.add_mc("MC_NoDupHeap_ops6.cfg", r, constants=open(os.path.join(SPEC, "MC_NoDupHeap_ops6.cfg")).read().split("\n")[1])
    r = simulate("NoDupHeap", "MC_NoDupHeap_sim.cfg", 5000 if not thorough else 60000, 17)
    chk.add_mc("MC_NoDupHeap_sim.cfg (simulation)", r, constants=open(os.path.join(SPEC, "MC_NoDupHeap_sim.cfg")).read().split("\n")[1] + f"; {r['traces']} random behaviours of depth <= 17")
    # (2) specification -> implementation: every edge of the finite fringe-content graph replayed on the real fringes,
    #     (3) plus seeded random long sequences; every trace validated by TraceFringe
    nrand, rlen = (400, 120) if not thorough else (20000, 200)
    samples = []
    for kind in ["simple", "nodup"]:
        paths = seqs_from_graph("MC_Fringe", f"MC_Fringe_{kind}_graph.cfg", f"fringe_{kind}", fringe_op, 40, chk)
        sf = os.path.join(w, f"seqs_{kind}.json")
        json.dump(paths, open(sf, "w"))
        tr = os.path.join(w, f"trace_{kind}.ndjson")
        run_bin("ds", ["fringe", "--kind", kind, "--seqs", sf, "--random", nrand, "--len", rlen, "--seed", SEED, "--out", tr])
        # the random sequences are regenerated by the engine: recover them from the trace for replays
        evs = split_runs(read_ndjson(tr))
        seqs = []
        for run in evs:
            s = []
            for e in run[1:]:
                if e["ev"] == "push":
                    n = e["node"]
                    s.append(["push", n["st"], n["depth"], n["value"], n["ub"]])
                elif e["ev"] in ("pop", "pop_none"):
                    s.append(["pop"])
                else:
                    s.append(["clear"])
            seqs.append(s)
        run_validate(chk, "TraceFringe", "TraceFringe.cfg", tr, seqs, {"engine": "ds fringe", "kind": kind})
        chk.cov["traces_validated_against_impl"] += len(evs)
        chk.cov["evaluations"] += len(evs)
        chk.cov["distinct_nontrivial"] += len({json.dumps(s) for s in seqs if any(o[0] == "pop" for o in s) and sum(o[0] == "push" for o in s) >= 2})
        samples.append({"kind": kind, "ops": seqs[len(paths) // 2][:12]})
        samples.append({"kind": kind, "trace_events": evs[-1][:6]})
    chk.cov["samples"] = samples
    chk.cov["rule"] = ("operation sequences = edge cover of TLC's state graph of MC_Fringe_*_graph (every push/pop/clear transition of the "
                       "specification over 2 states x 2 depths x 2 values x 2 ubs, size <= 3) + seeded random sequences over 3 states x 2 depths x 4 values x 4 ubs; "
                       "non-trivial = at least two pushes and one pop; distinct = distinct operation lists")
    chk.assumptions = ["MaxUB ranking with a total state ranking", "fringe wrapper of the harness logs faithfully",
                       "in-situ fringe operations of the solvers are validated by the solver checks (C01, C03), including depth-free state types"]
    return chk.finish()


# ------------------------------------------------------------------ stores: C10 (component level) and C18 (sequential)
def stores_part(chk, w, tier, want):
    """want: 'C10' or 'C18' -- both run the same histories; each check reports its own tags"""
    thorough = tier == "thorough"
    nrand, rlen = (150, 150) if not thorough else (8000, 300)
    if want == "C18":
        r = mc("MC_Cache", "MC_Cache.cfg", workers=8, require_actions=False)
        chk.add_mc("MC_Cache.cfg", r, constants=open(os.path.join(SPEC, "MC_Cache.cfg")).read().split("\n")[1])
        cpaths = seqs_from_graph("MC_Cache", "MC_Cache_graph.cfg", "cache", cache_op, 40, chk)
    else:
        cpaths = []
    total_runs = 0
    for uv in ["TRUE", "FALSE"]:
        if want == "C10":
            r = mc("MC_Dominance", f"MC_Dominance_{uv}.cfg", workers=8, require_actions=False)
            chk.add_mc(f"MC_Dominance_{uv}.cfg", r, constants=open(os.path.join(SPEC, f"MC_Dominance_{uv}.cfg")).read().split("\n")[1])
        dpaths = seqs_from_graph("MC_Dominance", f"MC_Dominance_{uv}_graph.cfg", f"dom_{uv}", dom_op, 40, chk)
        seqs = dpaths + (cpaths if uv == "TRUE" else [])
        sf = os.path.join(w, f"seqs_{uv}.json")
        json.dump(seqs, open(sf, "w"))
        tr = os.path.join(w, f"stores_{uv}.ndjson")
        run_bin("ds", ["stores", "--uv", uv.lower(), "--seqs", sf, "--random", nrand, "--len", rlen, "--seed", SEED, "--out", tr])
        evs = split_runs(read_ndjson(tr))
        run_validate(chk, "TraceStores", "TraceStores.cfg", tr, None, {"engine": "ds stores", "uv": uv.lower(), "seed": SEED, "random": nrand, "len": rlen})
        total_runs += len(evs)
        chk.cov["samples"].append({"use_value": uv, "trace_events": [e for e in evs[-1] if e["ev"].startswith("d" if want == "C10" else "c")][:6]})
        key = "dquery" if want == "C10" else "cget"
        chk.cov["distinct_nontrivial"] += len({json.dumps(run[1:]) for run in evs if sum(e["ev"] == key for e in run) >= 2})
    chk.cov["traces_validated_against_impl"] += total_runs
    chk.cov["evaluations"] += total_runs
    return total_runs


def c10_component(chk, w, tier):
    stores_part(chk, w, tier, "C10")
    tr = os.path.join(w, "cmp.ndjson")
    run_bin("ds", ["cmp", "--out", tr])
    run_validate(chk, "TraceStores", "TraceStores.cfg", tr, None, {"engine": "ds cmp"})
    chk.cov["evaluations"] += 2 * 27 * 27
    chk.cov["samples"].append({"comparator": read_ndjson(tr)[5]})


def c18(tier, replay):
    chk = Check("C18", tier)
    w = workdir("C18")
    thorough = tier == "thorough"
    stores_part(chk, w, tier, "C18")
    # concurrent part: linearisability of real-thread histories
    phases = 600 if not thorough else 12000
    batches = 1 if not thorough else 8
    rejected = 0
    for b in range(batches + 1):
        tr = os.path.join(w, f"lin_{b}.ndjson")
        if b == batches:
            # systematic: every ordered pair of operations on one key x every pause point of the first one (gated Hash impl)
            run_bin("ds", ["hashgate", "--out", tr])
        else:
            run_bin("ds", ["lin", "--phases", phases // batches, "--threads", 8 if b % 2 == 0 else 16, "--seed", SEED * 100 + b, "--out", tr])
        evs = read_ndjson(tr)
        runs = split_runs(evs)
        # a rejected phase is cut out and the rest re-validated, so one bad history does not hide the others
        while True:
            n = sum(len(r) for r in runs)
            cur = os.path.join(w, f"lin_{b}_cur.ndjson")
            with open(cur, "w") as f:
                for r in runs:
                    for e in r:
                        f.write(json.dumps(e) + "\n")
            res, r = validate("TraceLin", "TraceLin.cfg", cur, dfs=True, name=f"C18_lin_{b}")
            chk.cov["states"] += r["states"]
            chk.cov["transitions"] += r["generated"]
            if res["furthest"] >= n:
                break
            # find the phase containing the first unmatched line
            pos, bad = 0, None
            for i, rr in enumerate(runs):
                if pos + len(rr) > res["furthest"]:
                    bad = i
                    break
                pos += len(rr)
            hist = runs.pop(bad)
            rejected += 1
            chk.violation("C18 not-linearisable", {"engine": "ds lin", "history": hist, "first_unmatched": res["furthest"] - pos},
                          f"no linearisation explains phase {hist[0].get('run')} (first unexplained event #{res['furthest'] - pos}: {hist[min(res['furthest'] - pos, len(hist) - 1)]})")
            if rejected > 5:
                break
        nr = len(split_runs(evs))
        chk.cov["traces_validated_against_impl"] += nr
        chk.cov["evaluations"] += nr
        overl = 0
        for rr in split_runs(evs):
            open_ = 0
            mx = 0
            for e in rr[1:]:
                if e["ev"] == "inv":
                    open_ += 1
                    mx = max(mx, open_)
                elif e["ev"] == "res":
                    open_ -= 1
            overl += mx >= 2
        chk.cov["distinct_nontrivial"] += overl
        chk.cov.setdefault("phases_with_overlapping_calls", 0)
        chk.cov["phases_with_overlapping_calls"] += overl
        if b == 0:
            chk.cov["samples"].append({"concurrent_phase": split_runs(evs)[0][:10]})
    chk.cov["rule"] = ("sequential: edge cover of the cache graph (2 states x 2 depths x 2 values x 2 flags) + random histories, each read checked by TraceStores; "
                       "concurrent: phases of 2..16 real threads x 1..3 operations on 1..2 keys followed by a quiescent read-back, plus a systematic enumeration (ordered pair of operations on one key x pause point 1..6 of the first one, forced through a gated Hash impl of the state / key type), TLC searches a linearisation; "
                       "non-trivial = histories with >= 2 reads (sequential) or with really overlapping calls (concurrent), counted")
    chk.assumptions = ["the OS produces the interleavings (DashMap is not hooked)", "invocation/response stamps come from one SeqCst atomic counter"]
    tlaps_part(chk)
    return chk.finish()


def tlaps_part(chk):
    """the algebra of the threshold cache, machine-checked by TLAPS on the very definitions TLC uses (spec/proofs/ThresholdLemmas.tla):
    total order, ThMax is its join, an update never lowers an entry, updates commute, must_explore is antitone"""
    import subprocess, shutil, re as _re
    d = os.path.join(SPEC, "proofs")
    shutil.rmtree(os.path.join(d, ".tlacache"), ignore_errors=True)
    try:
        p = subprocess.run(["tlapm", "--threads", "4", "-I", "..", "ThresholdLemmas.tla"], cwd=d, capture_output=True, text=True, timeout=1200)
    except subprocess.TimeoutExpired:
        raise ToolError("tlapm timed out")
    shutil.rmtree(os.path.join(d, ".tlacache"), ignore_errors=True)
    m = _re.search(r"All (\d+) obligations? proved", p.stdout + p.stderr)
    if not m:
        log((p.stdout + p.stderr)[-2000:])
        raise ToolError("TLAPS did not prove spec/proofs/ThresholdLemmas.tla (specification-level failure)")
    chk.cov["tlaps"] = {"module": "spec/proofs/ThresholdLemmas.tla", "obligations_proved": int(m.group(1)),
                        "lemmas": ["Total", "Transitive", "MaxCommutes", "MaxAssociative", "MaxIdempotent", "UpdateNeverLowers", "UpdatesCommute", "MustAntitone", "UpdateWritesMax", "UpdateTouchesOneKey"]}


def c17_component(chk, w, tier):
    tr = os.path.join(w, "gap.ndjson")
    run_bin("ds", ["gap", "--seed", SEED, "--random", 20 if tier == "quick" else 120, "--out", tr])
    evs = read_ndjson(tr)[1:]
    res, r = validate("TraceStores", "TraceStores.cfg", tr, name="C17_gap")
    chk.cov["states"] += r["states"]
    chk.cov["transitions"] += len(evs)
    for tag, line, run in devs_of(res):
        e = evs[line - 2]
        chk.violation(tag, {"engine": "ds gap", "lb": e["lb"], "ub": e["ub"], "gap": e["gap"]}, f"{tag}: gap({e['lb']}, {e['ub']}) = {e['gap']}",
                      signature=f"{tag}")
    chk.cov["evaluations"] += len(evs)
    chk.cov["traces_validated_against_impl"] += 1
    chk.cov["distinct_nontrivial"] += len({(e["lb"], e["ub"]) for e in evs if not e["lb_inf"] and not e["ub_inf"]})
    chk.cov["samples"] += [evs[0], evs[len(evs) // 2], evs[-3]]


def c13_width(chk, w, tier):
    tr = os.path.join(w, "width.ndjson")
    run_bin("ds", ["width", "--out", tr])
    evs = read_ndjson(tr)[1:]
    res, r = validate("TraceStores", "TraceStores.cfg", tr, name="C13_width")
    chk.cov["states"] += r["states"]
    chk.cov["transitions"] += len(evs)
    for tag, line, run in devs_of(res):
        e = evs[line - 2]
        chk.violation(tag, {"engine": "ds width", "event": e}, f"{tag}: {e}")
    chk.cov["evaluations"] += len(evs)
    chk.cov["samples"].append({"width": evs[3]})


def c17(tier, replay):
    chk = Check("C17", tier)
    w = workdir("C17")
    c17_component(chk, w, tier)
    try:
        import solvers
        solvers.c17_runs(chk, w, tier)
    except ImportError:
        pass
    chk.cov["rule"] = ("all pairs lb <= ub of a grid of isize values (sentinels, 0, +-1, small, 2^24+1, 2^31, 2^53+1, 2^62, 2^62+1, MAX-1, mixed signs, plus seeded random magnitudes) "
                       "evaluated by the real default method Solver::gap() on a stub solver; TLC (Gap.tla through TraceStores) classifies each observation; "
                       "non-trivial = both bounds finite; distinct = distinct (lb, ub) pairs")
    chk.assumptions = ["classification flags (is_nan, < 0, == 0, == 1, <= 1) are computed by the harness from the f32; TLC only sees order relations"]
    return chk.finish()


CHECKS = {"C11": c11, "C18": c18, "C17": c17}
