#!/usr/bin/env python3
"""Development aid: run quick checks against a seeded change applied to a COPY of the repository (git worktree under /tmp + copy of
/verif next to it), so that /repo stays untouched (background runs that use /repo are not disturbed).
usage: tools/seedcopy.py <patch.diff> <check id>...     (keeps the copy warm under /tmp/verif_seedcopy/c0; --fresh rebuilds it)"""
import os, re, sys, time
sys.path.insert(0, os.path.dirname(os.path.abspath(__file__)))
import mutate

mutate.ROOT = "/tmp/verif_seedcopy"


def main():
    args = [a for a in sys.argv[1:] if a != "--fresh"]
    patch, ids = os.path.abspath(args[0]), args[1:]
    slot = os.environ.get("SLOT", "0")
    repo, verif = mutate.setup(int(slot))
    mutate.sh(["git", "checkout", "--", "."], repo)
    mutate.sh(["git", "checkout", "--detach", mutate.sh(["git", "-C", "/repo", "rev-parse", "HEAD"], "/")[1].strip()], repo)
    rc, out = mutate.sh(["git", "apply", patch], repo)
    if rc != 0:
        print("patch does not apply:", out[-500:])
        return 2
    try:
        for cid in ids:
            t0 = time.time()
            rc, out = mutate.sh(["python3", "tools/check.py", cid, os.environ.get("TIER", "quick")], verif, {"VERIF_REPO": repo}, timeout=7200)
            tags = re.findall(r"^  (C\d\d [\w-]+)", out, re.M)
            nv = len(re.findall(r"^VIOLATION", out, re.M))
            print(f"== {cid} rc={rc} ({round(time.time() - t0)}s) : {nv} violation lines; tags {sorted(set(tags))[:4]}")
            for l in [x for x in out.split("\n") if x.startswith("  C")][:2]:
                print(l[:330])
            if rc == 2:
                print(out[-600:])
    finally:
        mutate.sh(["git", "checkout", "--", "."], repo)
    return 0


if __name__ == "__main__":
    sys.exit(main())
