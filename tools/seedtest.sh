#!/bin/sh
# usage: tools/seedtest.sh <patch.diff> <check id>...   applies the patch to /repo, runs the quick checks, always restores /repo
patch="$1"; shift
cd /repo || exit 2
if [ -n "$(git status --porcelain --untracked-files=no)" ]; then echo "/repo not clean"; exit 2; fi
git apply "$patch" || { echo "patch does not apply"; exit 2; }
cd /verif
rm -rf /tmp/evidence_keep; cp -r /verif/evidence /tmp/evidence_keep
for id in "$@"; do
  tier=${TIER:-quick}
  start=$(date +%s)
  python3 tools/check.py "$id" "$tier" > /tmp/seedtest_$id.out 2>/tmp/seedtest_$id.err; rc=$?
  echo "== $id rc=$rc ($(( $(date +%s) - start ))s) : $(grep -c '^VIOLATION' /tmp/seedtest_$id.out) violation lines; $(grep -h 'KNOWN-FINDING\|TOOL-ERROR' /tmp/seedtest_$id.out /tmp/seedtest_$id.err | head -2)"
  grep -m2 '^VIOLATION' /tmp/seedtest_$id.out
  grep -A0 -m2 '^  C' /tmp/seedtest_$id.err
done
git -C /repo checkout -- .
rm -rf /verif/replays/C*
# evidence files describe runs on the unchanged tree only: restore them
rm -rf /verif/evidence; cp -r /tmp/evidence_keep /verif/evidence
