//! C20: draw a compiled diagram for all 64 visualisation configurations and turn each DOT text
//! into a `viz` event (small trusted DOT reader: the output grammar is five statement forms).
use crate::model::*;
use crate::rec::emit;
use ddo::*;
use serde_json::{json, Value};

pub trait Drawable {
    fn draw(&self, cfg: &VizConfig) -> String;
}
impl Drawable for Mdd<St, { LAST_EXACT_LAYER }> {
    fn draw(&self, cfg: &VizConfig) -> String {
        self.as_graphviz(cfg)
    }
}
impl Drawable for Mdd<St, { FRONTIER }> {
    fn draw(&self, cfg: &VizConfig) -> String {
        self.as_graphviz(cfg)
    }
}
impl Drawable for Pooled<St> {
    fn draw(&self, cfg: &VizConfig) -> String {
        self.as_graphviz(cfg)
    }
}

fn attrs(s: &str) -> Option<Vec<(String, String)>> {
    // k=v,k="v with , inside",...
    let mut out = vec![];
    let b = s.as_bytes();
    let mut i = 0;
    while i < b.len() {
        let k0 = i;
        while i < b.len() && b[i] != b'=' {
            i += 1;
        }
        if i >= b.len() {
            return None;
        }
        let k = s[k0..i].trim().to_string();
        i += 1;
        let v;
        if i < b.len() && b[i] == b'"' {
            i += 1;
            let v0 = i;
            while i < b.len() && b[i] != b'"' {
                i += 1;
            }
            if i >= b.len() {
                return None;
            }
            v = s[v0..i].to_string();
            i += 1;
        } else {
            let v0 = i;
            while i < b.len() && b[i] != b',' {
                i += 1;
            }
            v = s[v0..i].trim().to_string();
        }
        out.push((k, v));
        while i < b.len() && (b[i] == b',' || b[i] == b' ') {
            i += 1;
        }
    }
    Some(out)
}
fn get<'a>(a: &'a [(String, String)], k: &str) -> &'a str {
    a.iter().find(|x| x.0 == k).map(|x| x.1.as_str()).unwrap_or("")
}
fn lnum(s: &str) -> Value {
    match s {
        "+inf" => json!(POS_INF),
        "-inf" => json!(NEG_INF),
        _ => s.parse::<i64>().map(|v| json!(v)).unwrap_or(json!(s)),
    }
}

pub fn parse_dot(dot: &str, m: &Model) -> Value {
    let mut nodes = vec![];
    let mut edges = vec![];
    let mut term = vec![];
    let mut terminal = 0;
    let mut clusters = vec![];
    let mut bad: Vec<String> = vec![];
    let lines: Vec<&str> = dot.lines().collect();
    let mut i = 0;
    if lines.first().map(|l| l.trim()) != Some("digraph {") || lines.last().map(|l| l.trim()) != Some("}") {
        bad.push("no digraph envelope".into());
    }
    i += 1;
    while i + 1 < lines.len() {
        let l = lines[i].trim();
        i += 1;
        if l.is_empty() || l == "ranksep = 3;" {
            continue;
        }
        if let Some(rest) = l.strip_prefix("subgraph cluster_") {
            let idx = rest.trim_end_matches('{').trim();
            // style / color / ids / };
            let mut ids = vec![];
            let mut closed = false;
            while i + 1 < lines.len() {
                let c = lines[i].trim();
                i += 1;
                if c == "};" {
                    closed = true;
                    break;
                }
                if c.starts_with("style=") || c.starts_with("color=") {
                    continue;
                }
                for t in c.split(';') {
                    if !t.trim().is_empty() {
                        ids.push(lnum(t.trim()));
                    }
                }
            }
            if !closed {
                bad.push("unterminated cluster".into());
            }
            clusters.push(json!({"i": lnum(idx), "ids": ids}));
            continue;
        }
        if !l.ends_with(';') {
            bad.push(l.to_string());
            continue;
        }
        let l = &l[..l.len() - 1];
        let (head, at) = match l.find('[') {
            Some(p) if l.ends_with(']') => (l[..p].trim(), Some(&l[p + 1..l.len() - 1])),
            _ => (l.trim(), None),
        };
        let a = match at {
            Some(a) => match attrs(a) {
                Some(a) => a,
                None => {
                    bad.push(l.to_string());
                    continue;
                }
            },
            None => vec![],
        };
        if let Some((f, t)) = head.split_once(" -> ") {
            if t == "terminal" {
                term.push(json!({"from": lnum(f), "pw": lnum(if get(&a, "penwidth").is_empty() { "1" } else { get(&a, "penwidth") })}));
            } else {
                // label="(x{var} = {val})\ncost = {cost}"
                let lab = get(&a, "label");
                let parsed = (|| {
                    let (d, c) = lab.split_once("\\ncost = ")?;
                    let d = d.strip_prefix("(x")?.strip_suffix(')')?;
                    let (var, val) = d.split_once(" = ")?;
                    Some((var.parse::<i64>().ok()?, val.parse::<i64>().ok()?, c.parse::<i64>().ok()?))
                })();
                match parsed {
                    Some((var, val, cost)) => edges.push(json!({"from": lnum(f), "to": lnum(t), "pw": lnum(get(&a, "penwidth")), "var": var, "val": val, "cost": cost})),
                    None => bad.push(l.to_string()),
                }
            }
        } else if head == "terminal" {
            terminal += 1;
        } else if head.parse::<i64>().is_ok() {
            let lab: Vec<&str> = get(&a, "label").split("\\n").collect();
            let mut fields = serde_json::Map::new();
            for f in lab.iter().skip(1) {
                if let Some((k, v)) = f.split_once(": ") {
                    fields.insert(k.to_string(), lnum(v));
                }
            }
            // the harness's state type prints as d{depth}x{bits}: read it back so that TLC can match nodes by state, not by number
            let st = (|| {
                let (d, x) = lab[0].strip_prefix('d')?.split_once('x')?;
                Some(m.sjson(&St { d: d.parse().ok()?, x: x.parse().ok()? }))
            })();
            match st {
                Some(st) => nodes.push(json!({"id": lnum(head), "shape": get(&a, "shape"), "color": get(&a, "color"), "periph": lnum(get(&a, "peripheries")),
                              "group": get(&a, "group"), "state": lab[0], "st": st, "nfields": lab.len() - 1, "fields": fields})),
                None => bad.push(l.to_string()),
            }
        } else {
            bad.push(l.to_string());
        }
    }
    json!({"nodes": nodes, "edges": edges, "term": term, "terminal": terminal, "clusters": clusters, "malformed": bad})
}

/// all 64 configurations, each under catch_unwind (a panic is data)
pub fn draw_all<D: Drawable>(dd: &D, m: &Model) {
    // the complete drawings (show_deleted) come first: they name the nodes for the others
    for bits in (16..32u32).chain(48..64).chain(0..16).chain(32..48) {
        let f = |i: u32| bits >> i & 1 == 1;
        let cfg = VizConfig { show_value: f(0), show_locb: f(1), show_rub: f(2), show_threshold: f(3), show_deleted: f(4), group_merged: f(5) };
        let flags = json!([f(0), f(1), f(2), f(3), f(4), f(5)]);
        match std::panic::catch_unwind(std::panic::AssertUnwindSafe(|| dd.draw(&cfg))) {
            Ok(dot) => {
                let mut v = parse_dot(&dot, m);
                v["ev"] = json!("viz");
                v["cfg"] = flags;
                v["ok"] = json!(true);
                emit(v);
            }
            Err(_) => emit(json!({"ev":"viz","cfg":flags,"ok":false,"nodes":[],"edges":[],"term":[],"terminal":0,"clusters":[],"malformed":[]})),
        }
    }
}
