//! Engine `seq`: the real SequentialSolver over generated instances and configurations, every
//! trait object wrapped by a recorder.  Produces, per instance, a *base* run (no cache, no dominance),
//! paired variant runs (cache on, dominance on, pooled vs plain, warm start) and cutoff series
//! (the cutoff firing at every poll index 1..K+1, only the outcome of each run is logged).
use ddo::*;
use rand::{rngs::StdRng, Rng, SeedableRng};
use serde_json::{json, Value};
use std::io::{BufWriter, Write};
use std::sync::atomic::Ordering::SeqCst;
use vh::gen::*;
use vh::model::*;
use vh::rec::*;

fn arg(args: &[String], name: &str) -> Option<String> {
    args.iter().position(|a| a == name).and_then(|i| args.get(i + 1).cloned())
}
fn argn(args: &[String], name: &str, default: u64) -> u64 {
    arg(args, name).map(|s| s.parse().unwrap()).unwrap_or(default)
}

#[derive(Clone, Debug)]
pub struct RunCfg {
    pub dd: &'static str,
    pub cache: bool,
    pub dom: bool,
    pub fringe: &'static str,
    pub width: usize,
    pub cut_at: usize,
    pub primal: Vec<(isize, Vec<Decision>)>,
    /// "full": every event; "ret": reset + return only
    pub level: &'static str,
}
const WATCHDOG: usize = 6000;

fn soljson(s: &Option<Solution>) -> Value {
    match s {
        Some(s) => json!({"some": true, "decs": s.iter().map(Model::djson).collect::<Vec<_>>()}),
        None => json!({"some": false, "decs": []}),
    }
}

fn go<D, C>(m: &Model, cfg: &RunCfg) -> (Vec<Value>, Value)
where
    D: DecisionDiagram<State = St> + Default,
    C: Cache<State = St> + Default,
{
    set_model(m);
    take_log();
    let rm = RecModel(m);
    let width = FixedWidth(cfg.width);
    let cutoff = CountingCutoff::new(cfg.cut_at);
    let cutoff = CountingCutoff { watchdog: WATCHDOG, ..cutoff };
    let empty_dom = EmptyDominanceChecker::default();
    let real_dom = RecDominance { inner: SimpleDominanceChecker::new(ModelDominance(m), m.n), m };
    let dom: &dyn DominanceChecker<State = St> = if cfg.dom { &real_dom } else { &empty_dom };
    let mut f1 = RecFringe { inner: SimpleFringe::new(MaxUB::new(m)), m };
    let mut f2 = RecFringe { inner: NoDupFringe::new(MaxUB::new(m)), m };
    let fringe: &mut dyn Fringe<State = St> = if cfg.fringe == "nodup" { &mut f2 } else { &mut f1 };
    let mut solver = SequentialSolver::<St, RecDD<D>, RecCache<C>>::custom(&rm, &rm, &rm, &width, dom, &cutoff, fringe);
    for (v, sol) in cfg.primal.iter() {
        solver.set_primal(*v, sol.clone());
        emit(json!({"ev":"set_primal","value":num(*v),"sol":soljson(&Some(sol.clone())),"lb_after":num(solver.best_lower_bound()),
                    "val_after":onum(solver.best_value()),"sol_after":soljson(&solver.best_solution())}));
    }
    let res = std::panic::catch_unwind(std::panic::AssertUnwindSafe(|| solver.maximize()));
    let evs = take_log();
    let rootcs = {
        // descriptive flag: did some cut-set hand out the very sub-problem its diagram was compiled for ?
        let mut cur: Option<&Value> = None;
        let mut hit = false;
        for e in evs.iter() {
            if e["ev"] == "compile" {
                cur = Some(&e["root"]);
            } else if e["ev"] == "cutset" {
                if let Some(r) = cur {
                    hit |= e["nodes"].as_array().unwrap().iter().any(|n| n["st"] == r["st"] && n["depth"] == r["depth"]);
                }
            }
        }
        hit
    };
    let polls = cutoff.polls.load(SeqCst);
    let watchdog = cutoff.dog.load(SeqCst);
    let describe = |res: &std::thread::Result<Completion>, solver: &SequentialSolver<St, RecDD<D>, RecCache<C>>, polls: usize, watchdog: bool, again: bool| match res {
        Ok(c) => {
            let (lb, ub) = (solver.best_lower_bound(), solver.best_upper_bound());
            let g = solver.gap();
            json!({"ev":"return","again":again,"panicked":false,"is_exact":c.is_exact,"cval":onum(c.best_value),"best_value":onum(solver.best_value()),
                   "has_value": solver.best_value().is_some(), "best_lb":num(lb),"best_ub":num(ub),"sol":soljson(&solver.best_solution()),
                   "explored":solver.explored(),"polls":polls,"watchdog":watchdog,"root_in_cutset":rootcs,
                   "gap": {"nan": g.is_nan(), "neg": g < 0.0, "zero": g == 0.0, "one": g == 1.0, "le1": g <= 1.0, "text": format!("{g:e}"),
                           "lb": lb.to_string(), "ub": ub.to_string()}})
        }
        Err(_) => json!({"ev":"return","again":again,"panicked":true,"is_exact":false,"cval":NEG_INF,"best_value":NEG_INF,"has_value":false,"best_lb":NEG_INF,"best_ub":POS_INF,
                         "sol":soljson(&None),"explored":0,"polls":polls,"watchdog":watchdog,"root_in_cutset":rootcs,
                         "gap":{"nan":false,"neg":false,"zero":false,"one":true,"le1":true,"text":"-","lb":"-","ub":"-"}}),
    };
    let mut ret = describe(&res, &solver, polls, watchdog, false);
    // a run that was cut off is asked to go on: maximize() is called a second time on the same solver while the cutoff keeps answering
    // 'stop'; what it reports then must still be sound (C05) and no worse than what the first call reported (C19)
    let was_cut = cfg.cut_at > 0 && res.is_ok() && !watchdog && matches!(&res, Ok(c) if !c.is_exact);
    if was_cut {
        let res2 = std::panic::catch_unwind(std::panic::AssertUnwindSafe(|| solver.maximize()));
        take_log();
        let second = describe(&res2, &solver, cutoff.polls.load(SeqCst), cutoff.dog.load(SeqCst), true);
        ret["second"] = second;
        // ... and a third time once the criterion has stopped asking to stop (a renewed budget): whatever the solver makes of that
        // call -- give up at once, or go on searching -- what it reports must be sound, and exact only if optimal
        if res2.is_ok() {
            cutoff.released.store(true, SeqCst);
            cutoff.polls.store(0, SeqCst);
            let res3 = std::panic::catch_unwind(std::panic::AssertUnwindSafe(|| solver.maximize()));
            take_log();
            ret["third"] = describe(&res3, &solver, cutoff.polls.load(SeqCst), cutoff.dog.load(SeqCst), true);
        }
    }
    (evs, ret)
}

static CUR: std::sync::OnceLock<String> = std::sync::OnceLock::new();

pub fn run_seq(m: &Model, cfg: &RunCfg) -> (Vec<Value>, Value) {
    // which instance is being solved, should the library never return (read by tools/check.py when the engine is killed)
    if let Some(cur) = CUR.get() {
        let _ = std::fs::write(cur, json!({"inst": m.to_json(), "cfg": {"dd": cfg.dd, "fringe": cfg.fringe, "width": cfg.width, "cache": cfg.cache}}).to_string());
    }
    let r = run_seq0(m, cfg);
    if let Some(cur) = CUR.get() {
        let _ = std::fs::remove_file(cur);
    }
    r
}

fn run_seq0(m: &Model, cfg: &RunCfg) -> (Vec<Value>, Value) {
    match (cfg.dd, cfg.cache) {
        ("lel", false) => go::<Mdd<St, { LAST_EXACT_LAYER }>, EmptyCache<St>>(m, cfg),
        ("lel", true) => go::<Mdd<St, { LAST_EXACT_LAYER }>, SimpleCache<St>>(m, cfg),
        ("fc", false) => go::<Mdd<St, { FRONTIER }>, EmptyCache<St>>(m, cfg),
        ("fc", true) => go::<Mdd<St, { FRONTIER }>, SimpleCache<St>>(m, cfg),
        ("pooled", false) => go::<Pooled<St>, EmptyCache<St>>(m, cfg),
        ("pooled", true) => go::<Pooled<St>, SimpleCache<St>>(m, cfg),
        _ => panic!("bad dd"),
    }
}

struct Out<'a> {
    w: &'a mut dyn Write,
    run: usize,
}
impl Out<'_> {
    #[allow(clippy::too_many_arguments)]
    fn put(&mut self, m: &Model, inst_id: usize, cfg: &RunCfg, role: &str, series: i64, last: bool, evs: Vec<Value>, ret: Value) {
        let full = cfg.level == "full" && !ret["watchdog"].as_bool().unwrap() && !ret["panicked"].as_bool().unwrap();
        writeln!(self.w, "{}", json!({"ev":"reset","run":self.run,"inst_id":inst_id,"inst":m.to_json(),"dd":cfg.dd,"cache":cfg.cache,"dom":cfg.dom,"fringe":cfg.fringe,
            "width":cfg.width,"cut_at":cfg.cut_at,"nprimal":cfg.primal.len(),"role":role,"series":series,"last":last,"level": if full {"full"} else {"ret"}})).unwrap();
        if full {
            write_events(self.w, &evs);
        } else {
            // the warm-start events are kept even in outcome-only mode
            for e in evs.iter().filter(|e| e["ev"] == "set_primal") {
                writeln!(self.w, "{}", e).unwrap();
            }
        }
        let mut ret = ret;
        let second = ret.as_object_mut().unwrap().remove("second");
        let third = ret.as_object_mut().unwrap().remove("third");
        writeln!(self.w, "{}", ret).unwrap();
        if let Some(s2) = second {
            writeln!(self.w, "{}", s2).unwrap();
        }
        if let Some(s3) = third {
            writeln!(self.w, "{}", s3).unwrap();
        }
        self.run += 1;
    }
}

fn main() {
    let args: Vec<String> = std::env::args().collect();
    let outp = arg(&args, "--out").expect("--out");
    let outp2 = outp.clone();
    let _ = CUR.set(format!("{outp2}.cur"));
    let mut w = BufWriter::new(std::fs::File::create(outp).unwrap());
    let seed = argn(&args, "--seed", 1);
    let insts = argn(&args, "--instances", 10) as usize;
    let fam = arg(&args, "--family").unwrap_or("allimpacted".into());
    let mode = arg(&args, "--mode").unwrap_or("base".into());
    let maxn = argn(&args, "--maxn", 5) as usize;
    let inst_file = arg(&args, "--inst-file");
    let force = arg(&args, "--cfg").map(|s| serde_json::from_str::<Value>(&s).unwrap());
    // --sweep k: k further instances per listed instance are solved WITHOUT being logged; a run whose outcome disagrees with the harness' own
    // optimum is run again, logged (the runs are deterministic), next to its reference run, and judged by TLC like any other run
    let sweep = argn(&args, "--sweep", 0) as usize;
    if args.iter().any(|a| a == "--cache-fault") {
        CACHE_FAULT.store(true, SeqCst);
    }
    if args.iter().any(|a| a == "--callbacks") {
        CALLBACKS.store(true, SeqCst);
    }
    std::panic::set_hook(Box::new(|_| {}));
    let mut r = StdRng::seed_from_u64(seed ^ 0x5e9);
    let models: Vec<Model> = match inst_file {
        Some(f) => {
            let v: Vec<Value> = serde_json::from_str(&std::fs::read_to_string(f).unwrap()).unwrap();
            v.iter().map(Model::from_json).collect()
        }
        None => (0..insts).map(|i| gen_model(&fam, seed.wrapping_mul(7919).wrapping_add(i as u64), maxn, true)).collect(),
    };
    let mut out = Out { w: &mut w, run: 0 };
    let mut series = 0i64;
    let mut swept = 0usize;
    let mut suspects = 0usize;
    for (inst_id, m) in models.iter().enumerate() {
        if matches!(mode.as_str(), "base" | "cache" | "longarc") {
            for j in 0..sweep {
                let m2 = gen_model(&fam, seed.wrapping_mul(104729).wrapping_add((inst_id * sweep + j) as u64), maxn, true);
                let cfg = RunCfg {
                    dd: if mode == "longarc" { "pooled" } else { ["lel", "fc", "pooled", "fc", "pooled"][r.gen_range(0..5)] },
                    cache: match mode.as_str() { "base" => false, "cache" => true, _ => r.gen_bool(0.5) },
                    dom: false,
                    fringe: ["simple", "nodup"][r.gen_range(0..2)],
                    width: [1, 1, 2, 2, 3][r.gen_range(0..5)],
                    cut_at: 0,
                    primal: vec![],
                    level: "full",
                };
                let (_, ret) = run_seq(&m2, &cfg);
                swept += 1;
                let val = if ret["has_value"].as_bool().unwrap() { Some(ret["best_value"].as_i64().unwrap()) } else { None };
                let bad = ret["panicked"].as_bool().unwrap() || ret["watchdog"].as_bool().unwrap() || !ret["is_exact"].as_bool().unwrap() || val != m2.opt().map(|o| o as i64)
                    || !m2.solution_consistent(&ret)
                    || (ret["has_value"].as_bool().unwrap() && ret["best_ub"] != ret["best_value"]);
                if bad {
                    suspects += 1;
                    let id2 = 1_000_000 + inst_id * sweep + j;
                    match mode.as_str() {
                        "base" => {
                            let (e, ret) = run_seq(&m2, &cfg);
                            out.put(&m2, id2, &cfg, "base", -1, false, e, ret);
                        }
                        _ => {
                            // the reference run: same configuration without cache (C09) / with a plain diagram (C15)
                            let refcfg = if mode == "cache" { RunCfg { cache: false, ..cfg.clone() } } else { RunCfg { dd: "fc", cache: false, ..cfg.clone() } };
                            let (e, ret) = run_seq(&m2, &refcfg);
                            out.put(&m2, id2, &refcfg, "base", -1, false, e, ret);
                            let (e, ret) = run_seq(&m2, &cfg);
                            out.put(&m2, id2, &cfg, "variant", -1, false, e, ret);
                        }
                    }
                }
            }
        }
        let mut base = RunCfg {
            dd: ["lel", "fc", "pooled"][r.gen_range(0..3)],
            cache: false,
            dom: false,
            fringe: ["simple", "nodup"][r.gen_range(0..2)],
            width: [1, 1, 1, 2, 2, 3][r.gen_range(0..6)],
            cut_at: 0,
            primal: vec![],
            level: "full",
        };
        if let Some(f) = &force {
            if let Some(d) = f["dd"].as_str() {
                base.dd = ["lel", "fc", "pooled"].into_iter().find(|x| *x == d).unwrap();
            }
            if let Some(d) = f["fringe"].as_str() {
                base.fringe = ["simple", "nodup"].into_iter().find(|x| *x == d).unwrap();
            }
            if let Some(d) = f["width"].as_u64() {
                base.width = d as usize;
            }
        }
        match mode.as_str() {
            // C01 / C02 / C11 in situ / C06-C08 in situ
            "base" => {
                for dd in ["lel", "fc", "pooled"] {
                    let cfg = RunCfg { dd, ..base.clone() };
                    let (e, ret) = run_seq(m, &cfg);
                    out.put(m, inst_id, &cfg, "base", -1, false, e, ret);
                }
            }
            // C09: the same configuration without and with the cache
            "cache" => {
                let (e, ret) = run_seq(m, &base);
                out.put(m, inst_id, &base, "base", -1, false, e, ret);
                for dom in [false, true] {
                    if dom && m.dom == DomMode::None {
                        continue;
                    }
                    let cfg = RunCfg { cache: true, dom, ..base.clone() };
                    let (e, ret) = run_seq(m, &cfg);
                    out.put(m, inst_id, &cfg, "variant", -1, false, e, ret);
                }
            }
            // C10: without and with the dominance checker
            "dom" => {
                if !m.pot.is_empty() {
                    // with potentials the value of a state is shifted by phi(state): the value-using rule of the model families is not a
                    // valid dominance relation there (C10 presupposes a valid one)
                    continue;
                }
                let (e, ret) = run_seq(m, &base);
                out.put(m, inst_id, &base, "base", -1, false, e, ret);
                for cache in [false, true] {
                    let cfg = RunCfg { dom: true, cache, ..base.clone() };
                    let (e, ret) = run_seq(m, &cfg);
                    out.put(m, inst_id, &cfg, "variant", -1, false, e, ret);
                }
            }
            // C15: plain diagram (every state expanded on every variable) vs pooled, cache off / on
            "longarc" => {
                let plain = RunCfg { dd: if r.gen_bool(0.5) { "lel" } else { "fc" }, ..base.clone() };
                let (e, ret) = run_seq(m, &plain);
                out.put(m, inst_id, &plain, "base", -1, false, e, ret);
                for cache in [false, true] {
                    let cfg = RunCfg { dd: "pooled", cache, ..base.clone() };
                    let (e, ret) = run_seq(m, &cfg);
                    out.put(m, inst_id, &cfg, "variant", -1, false, e, ret);
                }
            }
            // C14: warm starts taken from the oracle's witness solutions
            "primal" => {
                if let (Some((vo, so)), Some((vw, sw))) = (m.witness(false), m.witness(true)) {
                    let cache = r.gen_bool(0.5);
                    for primal in [vec![(vo, so.clone())], vec![(vw, sw.clone())], vec![(vw, sw.clone()), (vo, so.clone())], vec![(vo, so.clone()), (vw, sw.clone())], vec![(vw, sw.clone()), (vw, so.clone())]] {
                        // the last one presents the same value twice with two different solutions: the incumbent must not be replaced
                        let ok_last = primal.len() == 2 && primal[0].0 == primal[1].0;
                        let primal = if ok_last { vec![(vw, sw.clone()), (vw, {
                            let mut s2 = sw.clone();
                            s2.reverse();
                            s2
                        })] } else { primal };
                        let cfg = RunCfg { primal, cache, ..base.clone() };
                        let (e, ret) = run_seq(m, &cfg);
                        out.put(m, inst_id, &cfg, "primal", -1, false, e, ret);
                    }
                }
            }
            // C05 / C19: the cutoff fires at poll k, for every k = 1..K+1
            "cutoff" => {
                // some series are warm-started with the oracle's worst feasible solution (warm start x cutoff)
                let primal = match (r.gen_bool(0.3), m.witness(true)) {
                    (true, Some((vw, sw))) => vec![(vw, sw)],
                    _ => vec![],
                };
                let cfg0 = RunCfg { cache: r.gen_bool(0.5), dom: m.dom != DomMode::None && r.gen_bool(0.3), level: "ret", primal, ..base.clone() };
                let (_, full) = run_seq(m, &cfg0);
                let k_max = full["polls"].as_u64().unwrap() as usize;
                if full["watchdog"].as_bool().unwrap() {
                    out.put(m, inst_id, &cfg0, "base", -1, false, vec![], full);
                    continue;
                }
                series += 1;
                for k in 1..=(k_max + 1) {
                    let cfg = RunCfg { cut_at: k, ..cfg0.clone() };
                    let (e, ret) = run_seq(m, &cfg);
                    out.put(m, inst_id, &cfg, "cut", series, k == k_max + 1, e, ret);
                }
            }
            x => panic!("unknown mode {x}"),
        }
    }
    w.flush().unwrap();
    let _ = std::fs::remove_file(format!("{outp2}.cur"));
    if sweep > 0 {
        eprintln!("SWEEP runs={} suspects={}", swept, suspects);
    }
}
