//! Engine `dd`: single compilations of the three real diagram implementations, in isolation (empty
//! cache, empty dominance store), over generated instances x reachable exact sub-problems x widths x
//! incumbents x compilation types, with one diagram object re-used for the whole run (histories).
//! Records outcome-level events (and optionally every callback, and every DOT drawing).
use ddo::*;
use rand::{rngs::StdRng, seq::SliceRandom, Rng, SeedableRng};
use serde_json::json;
use std::collections::BTreeMap;
use std::io::{BufWriter, Write};
use std::sync::atomic::Ordering::SeqCst;
use std::sync::Arc;
use vh::gen::*;
use vh::model::*;
use vh::rec::*;
use vh::viz::*;

fn arg(args: &[String], name: &str) -> Option<String> {
    args.iter().position(|a| a == name).and_then(|i| args.get(i + 1).cloned())
}
fn argn(args: &[String], name: &str, default: u64) -> u64 {
    arg(args, name).map(|s| s.parse().unwrap()).unwrap_or(default)
}

/// exact sub-problems reachable from the root, layer by layer, following the model's own variable order
pub fn reachable(m: &Model, skip_unimpacted: bool) -> Vec<SubProblem<St>> {
    let mut out = vec![];
    let mut layer: BTreeMap<St, (isize, Vec<Decision>)> = BTreeMap::new();
    layer.insert(m.initial_state(), (m.v0, vec![]));
    let mut depth = 0;
    loop {
        for (s, (v, p)) in layer.iter() {
            out.push(SubProblem { state: Arc::new(s.clone()), value: *v, path: p.clone(), ub: isize::MAX, depth });
        }
        let var = match m.next_variable(depth, &mut layer.keys()) {
            Some(v) => v,
            None => break,
        };
        let mut next: BTreeMap<St, (isize, Vec<Decision>)> = BTreeMap::new();
        for (s, (v, p)) in layer.iter() {
            if skip_unimpacted && !m.is_impacted_by(var, s) {
                let e = next.entry(s.clone()).or_insert((isize::MIN, vec![]));
                if *v > e.0 {
                    *e = (*v, p.clone());
                }
                continue;
            }
            for a in m.domain(var.0, s.x) {
                let d = Decision { variable: var, value: a as isize };
                let t = m.transition(s, d);
                let c = m.transition_cost(s, &t, d);
                let e = next.entry(t).or_insert((isize::MIN, vec![]));
                if v + c > e.0 {
                    let mut q = p.clone();
                    q.push(d);
                    *e = (v + c, q);
                }
            }
        }
        depth += 1;
        if next.is_empty() || depth > m.n {
            break;
        }
        layer = next;
    }
    out
}

#[allow(clippy::too_many_arguments)]
/// numeric part of the contract on the values a compilation reports, with the harness' own value-to-go: used ONLY to select, among
/// the unlogged compilations of a sweep, the ones worth logging (TLC judges every logged compilation against DDContract.tla)
fn suspect(ty: CompilationType, lb: isize, ro: Option<isize>, exact: bool, bv: Option<isize>, bev: Option<isize>) -> bool {
    let ro = ro.unwrap_or(isize::MIN);
    let beats = ro > lb;
    let bv = bv.unwrap_or(isize::MIN);
    let bev = bev.unwrap_or(isize::MIN);
    match ty {
        CompilationType::Relaxed => (beats && bv < ro) || (exact && beats && bev != ro) || bev > ro,
        CompilationType::Restricted => bv > ro || (exact && beats && bv != ro),
        CompilationType::Exact => (beats && bv != ro) || bv > ro,
    }
}

#[allow(clippy::too_many_arguments)]
fn drive<D: DecisionDiagram<State = St> + Default + Drawable>(m: &Model, ddname: &str, run: usize, per_inst: usize, r: &mut StdRng, callbacks: bool, viz: bool, sweep: usize, out: &mut dyn Write) {
    set_model(m);
    take_log();
    let rm = RecModel(m);
    let cache = EmptyCache::new();
    let dom = EmptyDominanceChecker::default();
    let cutoff = NoCutoff;
    let mut dd: RecDD<D> = RecDD::default();
    let roots = reachable(m, ddname == "pooled" && m.long_arcs && r.gen_bool(0.5));
    writeln!(out, "{}", json!({"ev":"reset","run":run,"dd":ddname,"inst":m.to_json(),"callbacks":callbacks})).unwrap();
    for k in 0..per_inst * (1 + sweep) {
        // the compilations beyond per_inst are a sweep: logged only when the numeric pre-filter finds their values suspect
        let sweeping = k >= per_inst;
        let shallow: Vec<&SubProblem<St>> = roots.iter().filter(|x| x.depth <= 1).collect();
        let root = if r.gen_bool(0.8) { *shallow.choose(r).unwrap() } else { roots.choose(r).unwrap() };
        let ro = m.hstar(root.depth, root.state.x).map(|h| h + root.value);
        let lb = match (r.gen_range(0..8), ro) {
            (0, _) | (5, _) | (6, _) | (7, _) | (_, None) => isize::MIN,
            (1, Some(o)) => o - 1,
            (2, Some(o)) => o,
            (3, Some(o)) => o + 1,
            (_, Some(o)) => o - r.gen_range(2..6),
        };
        let ty = [CompilationType::Relaxed, CompilationType::Relaxed, CompilationType::Relaxed, CompilationType::Restricted, CompilationType::Restricted, CompilationType::Exact][r.gen_range(0..6)];
        let width = [1, 1, 1, 2, 2, 2, 3, 3, 4, 5][r.gen_range(0..10)];
        let input = CompilationInput { comp_type: ty, max_width: width, problem: &rm, relaxation: &rm, ranking: &rm, cutoff: &cutoff, cache: &cache, dominance: &dom, residual: root, best_lb: lb };
        CALLBACKS.store(callbacks && !sweeping, SeqCst);
        let res = std::panic::catch_unwind(std::panic::AssertUnwindSafe(|| dd.compile(&input)));
        CALLBACKS.store(false, SeqCst);
        let mut keep = !sweeping;
        if sweeping {
            keep = match &res {
                Err(_) => true,
                Ok(Err(_)) => false,
                Ok(Ok(c)) => suspect(ty, lb, ro, c.is_exact, dd.best_value(), dd.best_exact_value()),
            };
        }
        match res {
            Err(_) => {
                emit(json!({"ev":"panic","where":"compile"}));
                dd = RecDD::default();
            }
            Ok(c) => {
                if viz && c.is_ok() && !sweeping {
                    draw_all(&dd.inner, m);
                }
                // like the solvers: the cut-set is drained only when the relaxed diagram is not exact (an un-drained
                // cut-set is part of the history of the diagram object)
                if ty == CompilationType::Relaxed && c.is_ok() && (!dd.is_exact() || r.gen_bool(0.1)) {
                    if std::panic::catch_unwind(std::panic::AssertUnwindSafe(|| dd.drain_cutset(|_| {}))).is_err() {
                        emit(json!({"ev":"panic","where":"drain"}));
                        dd = RecDD::default();
                    }
                }
            }
        }
        let evs = take_log();
        if keep {
            write_events(out, &evs);
        }
    }
}

/// SimpleCache that remembers every update (inputs mode only)
struct CuCache {
    inner: SimpleCache<St>,
    log: std::sync::Mutex<Vec<(usize, St, isize, bool)>>,
}
impl Cache for CuCache {
    type State = St;
    fn initialize(&mut self, p: &dyn Problem<State = St>) {
        self.inner.initialize(p)
    }
    fn get_threshold(&self, s: &St, d: usize) -> Option<Threshold> {
        self.inner.get_threshold(s, d)
    }
    fn update_threshold(&self, s: Arc<St>, d: usize, v: isize, e: bool) {
        self.log.lock().unwrap().push((d, (*s).clone(), v, e));
        self.inner.update_threshold(s, d, v, e)
    }
    fn clear_layer(&self, d: usize) {
        self.inner.clear_layer(d)
    }
    fn clear(&self) {
        self.inner.clear()
    }
}

/// spec -> impl: compile the inputs enumerated by TLC on DD.tla with the real compilers and report the outcomes in the model's shape
fn replay_inputs(file: &str, outp: &str) {
    let inputs: Vec<serde_json::Value> = serde_json::from_str(&std::fs::read_to_string(file).unwrap()).unwrap();
    let mut outs = vec![];
    let mut cache = CuCache { inner: SimpleCache::default(), log: std::sync::Mutex::new(vec![]) };
    let dom = EmptyDominanceChecker::default();
    let cutoff = NoCutoff;
    let mut lel: Mdd<St, { LAST_EXACT_LAYER }> = Mdd::new();
    let mut fc: Mdd<St, { FRONTIER }> = Mdd::new();
    let mut pooled: Pooled<St> = Pooled::new();
    for i in inputs.iter() {
        let m = Model::from_json(&i["inst"]);
        let r = &i["root"];
        let depth = r["depth"].as_u64().unwrap() as usize;
        let xs: Vec<u64> = r["x"].as_array().unwrap().iter().map(|v| v.as_u64().unwrap()).collect();
        let x = if m.family == Family::Knapsack { xs[0] as u32 } else { xs.iter().fold(0u32, |a, e| a | 1 << (e - 1)) };
        let root = SubProblem {
            state: Arc::new(m.st(depth, x)),
            value: r["value"].as_i64().unwrap() as isize,
            path: r["path"].as_array().unwrap().iter().map(|d| Decision { variable: Variable(d[0].as_u64().unwrap() as usize), value: d[1].as_i64().unwrap() as isize }).collect(),
            ub: isize::MAX,
            depth,
        };
        let ty = match i["type"].as_str().unwrap() {
            "exact" => CompilationType::Exact,
            "restricted" => CompilationType::Restricted,
            _ => CompilationType::Relaxed,
        };
        let lb = i["lb"].as_i64().unwrap();
        let lb = if lb <= NEG_INF { isize::MIN } else { lb as isize };
        // a fresh, empty threshold cache per compilation: what the diagram writes into it is part of the outcome
        cache.inner = SimpleCache::default();
        cache.inner.initialize(&m);
        cache.log.lock().unwrap().clear();
        let input = CompilationInput { comp_type: ty, max_width: i["width"].as_u64().unwrap() as usize, problem: &m, relaxation: &m, ranking: &m, cutoff: &cutoff, cache: &cache, dominance: &dom, residual: &root, best_lb: lb };
        let mut cs = vec![];
        let (exact, bv, bev) = if i["cut"] == "lel" {
            lel.compile(&input).unwrap();
            if ty == CompilationType::Relaxed && !lel.is_exact() {
                lel.drain_cutset(|c| cs.push(c));
            }
            (lel.is_exact(), lel.best_value(), lel.best_exact_value())
        } else if i["cut"] == "pooled" {
            pooled.compile(&input).unwrap();
            if ty == CompilationType::Relaxed && !pooled.is_exact() {
                pooled.drain_cutset(|c| cs.push(c));
            }
            (pooled.is_exact(), pooled.best_value(), pooled.best_exact_value())
        } else {
            fc.compile(&input).unwrap();
            if ty == CompilationType::Relaxed && !fc.is_exact() {
                fc.drain_cutset(|c| cs.push(c));
            }
            (fc.is_exact(), fc.best_value(), fc.best_exact_value())
        };
        let mut csj: Vec<serde_json::Value> = cs.iter().map(|c| json!({"x": m.xjson(c.state.x), "depth": c.depth, "value": num(c.value), "ub": num(c.ub)})).collect();
        csj.sort_by_key(|v| v.to_string());
        let mut cu: Vec<serde_json::Value> = cache.log.lock().unwrap().iter().map(|(d, st, v, e)| json!({"d": d, "x": m.xjson(st.x), "v": num(*v), "e": e})).collect();
        cu.sort_by_key(|v| v.to_string());
        cu.dedup();
        outs.push(json!({"exact": exact, "bv": onum(bv), "bev": onum(bev), "cs": csj, "cu": cu}));
    }
    std::fs::write(outp, serde_json::to_string(&outs).unwrap()).unwrap();
}

fn main() {
    let args: Vec<String> = std::env::args().collect();
    let outp = arg(&args, "--out").expect("--out");
    if let Some(f) = arg(&args, "--inputs") {
        return replay_inputs(&f, &outp);
    }
    let mut out = BufWriter::new(std::fs::File::create(outp).unwrap());
    let seed = argn(&args, "--seed", 1);
    let insts = argn(&args, "--instances", 10) as usize;
    let per_inst = argn(&args, "--per-instance", 20) as usize;
    let callbacks = args.iter().any(|a| a == "--callbacks");
    let viz = args.iter().any(|a| a == "--viz");
    let fam = arg(&args, "--family").unwrap_or("mixed".into());
    let sweep = argn(&args, "--sweep", 0) as usize;
    let only_dd = arg(&args, "--dd");
    let inst_file = arg(&args, "--inst-file");
    std::panic::set_hook(Box::new(|_| {}));
    let mut r = StdRng::seed_from_u64(seed ^ 0xdd);
    let mut run = 0;
    let models: Vec<Model> = match inst_file {
        Some(f) => {
            let v: Vec<serde_json::Value> = serde_json::from_str(&std::fs::read_to_string(f).unwrap()).unwrap();
            v.iter().map(Model::from_json).collect()
        }
        None => (0..insts).map(|i| gen_model(&fam, seed.wrapping_mul(7919).wrapping_add(i as u64), 5, true)).collect(),
    };
    for m in models.iter() {
        for ddname in ["lel", "fc", "pooled"] {
            if let Some(o) = &only_dd {
                if o != ddname {
                    continue;
                }
            }
            match ddname {
                "lel" => drive::<Mdd<St, { LAST_EXACT_LAYER }>>(m, ddname, run, per_inst, &mut r, callbacks, viz, sweep, &mut out),
                "fc" => drive::<Mdd<St, { FRONTIER }>>(m, ddname, run, per_inst, &mut r, callbacks, viz, sweep, &mut out),
                _ => drive::<Pooled<St>>(m, ddname, run, per_inst, &mut r, callbacks, viz, sweep, &mut out),
            }
            run += 1;
        }
    }
    out.flush().unwrap();
}
