//! Engine `ds`: drives the real fringes, cache, dominance checker, gap() and width combinators with
//! operation sequences (generated from TLC state graphs, or seeded random) and records NDJSON traces
//! for TraceFringe / TraceStores / TraceLin.  It records; it does not judge.
use ddo::*;
use rand::{rngs::StdRng, Rng, SeedableRng};
use serde_json::{json, Value};
use std::io::{BufWriter, Write};
use std::sync::atomic::{AtomicU64, Ordering::SeqCst};
use std::sync::{Arc, Barrier};
use vh::model::{num, St, NEG_INF};

struct Rk;
impl StateRanking for Rk {
    type State = St;
    fn compare(&self, a: &St, b: &St) -> std::cmp::Ordering {
        a.x.cmp(&b.x)
    }
}
fn letter(x: u32) -> String {
    ((b'a' + (x as u8 - 1)) as char).to_string()
}
fn unletter(s: &str) -> u32 {
    (s.as_bytes()[0] - b'a') as u32 + 1
}
fn spjson(n: &SubProblem<St>) -> Value {
    json!({"st": letter(n.state.x), "depth": n.depth, "value": num(n.value), "ub": num(n.ub),
           "path": n.path.iter().map(|d| json!([d.variable.0, d.value])).collect::<Vec<_>>()})
}

fn arg(args: &[String], name: &str) -> Option<String> {
    args.iter().position(|a| a == name).and_then(|i| args.get(i + 1).cloned())
}
fn argn(args: &[String], name: &str, default: u64) -> u64 {
    arg(args, name).map(|s| s.parse().unwrap()).unwrap_or(default)
}

/// op sequences: explicit (from the TLC graph walk) followed by seeded random ones
fn load_seqs(args: &[String]) -> Vec<Vec<Value>> {
    match arg(args, "--seqs") {
        Some(f) => serde_json::from_str(&std::fs::read_to_string(f).unwrap()).unwrap(),
        None => vec![],
    }
}

fn fringe(args: &[String], out: &mut dyn Write) {
    let kind = arg(args, "--kind").unwrap();
    let mut seqs = load_seqs(args);
    let nrand = argn(args, "--random", 0);
    let len = argn(args, "--len", 100);
    let seed = argn(args, "--seed", 1);
    let (ns, nd, nv, nu) = (argn(args, "--states", 3) as u32, argn(args, "--depths", 2) as usize, argn(args, "--values", 4) as isize, argn(args, "--ubs", 4) as isize);
    for i in 0..nrand {
        let mut r = StdRng::seed_from_u64(seed.wrapping_mul(1_000_003).wrapping_add(i));
        let mut s = vec![];
        let p_push = [45, 55, 70][r.gen_range(0..3)];
        for _ in 0..len {
            let x = r.gen_range(0..100);
            if x < p_push {
                s.push(json!(["push", letter(r.gen_range(1..=ns)), r.gen_range(0..nd), r.gen_range(0..nv), r.gen_range(0..nu)]));
            } else if x < 98 {
                s.push(json!(["pop"]));
            } else {
                s.push(json!(["clear"]));
            }
        }
        seqs.push(s);
    }
    let rk = Rk;
    for (run, seq) in seqs.iter().enumerate() {
        let mut f1 = SimpleFringe::new(MaxUB::new(&rk));
        let mut f2 = NoDupFringe::new(MaxUB::new(&rk));
        let f: &mut dyn Fringe<State = St> = if kind == "nodup" { &mut f2 } else { &mut f1 };
        writeln!(out, "{}", json!({"ev":"reset","kind":kind,"run":run})).unwrap();
        let mut uid = 0isize;
        for op in seq {
            // a panic of the code under test is data: it is logged and ends the run
            let r = std::panic::catch_unwind(std::panic::AssertUnwindSafe(|| match op[0].as_str().unwrap() {
                "push" => {
                    uid += 1;
                    let n = SubProblem {
                        state: Arc::new(St { d: -1, x: unletter(op[1].as_str().unwrap()) }),
                        depth: op[2].as_u64().unwrap() as usize,
                        value: op[3].as_i64().unwrap() as isize,
                        ub: op[4].as_i64().unwrap() as isize,
                        path: vec![Decision { variable: Variable(0), value: uid }],
                    };
                    let j = spjson(&n);
                    f.push(n);
                    json!({"ev":"push","node":j,"len":f.len()})
                }
                "pop" => match f.pop() {
                    Some(n) => json!({"ev":"pop","node":spjson(&n),"len":f.len()}),
                    None => json!({"ev":"pop_none","len":f.len()}),
                },
                "clear" => {
                    f.clear();
                    json!({"ev":"fclear","len":f.len()})
                }
                o => json!({"ev":"harness_error","what":format!("unknown op {o}")}),
            }));
            match r {
                Ok(j) => writeln!(out, "{}", j).unwrap(),
                Err(_) => {
                    writeln!(out, "{}", json!({"ev":"panic","op":op})).unwrap();
                    break;
                }
            }
        }
    }
}

// ---------------------------------------------------------------- table-driven dominance
#[derive(Clone, Copy)]
pub struct TD {
    use_value: bool,
}
type DS = (u8, i8, i8); // key, c1, c2
impl Dominance for TD {
    type State = DS;
    type Key = u8;
    fn get_key(&self, s: Arc<DS>) -> Option<u8> {
        // key 0: a state without dominance key
        if s.0 == 0 {
            None
        } else {
            Some(s.0)
        }
    }
    fn nb_dimensions(&self, _: &DS) -> usize {
        2
    }
    // (order-preserving image of the small abstract coordinate reaching the ends of the isize range)
    fn get_coordinate(&self, s: &DS, i: usize) -> isize {
        let c = if i == 0 { s.1 as isize } else { s.2 as isize };
        (c - 2) * (isize::MAX / 2)
    }
    fn use_value(&self) -> bool {
        self.use_value
    }
}
struct Dummy(usize);
impl Problem for Dummy {
    type State = St;
    fn nb_variables(&self) -> usize {
        self.0
    }
    fn initial_state(&self) -> St {
        St { d: 0, x: 0 }
    }
    fn initial_value(&self) -> isize {
        0
    }
    fn transition(&self, s: &St, _: Decision) -> St {
        s.clone()
    }
    fn transition_cost(&self, _: &St, _: &St, _: Decision) -> isize {
        0
    }
    fn next_variable(&self, _: usize, _: &mut dyn Iterator<Item = &St>) -> Option<Variable> {
        None
    }
    fn for_each_in_domain(&self, _: Variable, _: &St, _: &mut dyn DecisionCallback) {}
}
fn thjson(t: Option<Threshold>) -> Value {
    match t {
        Some(t) => json!([num(t.value), t.explored]),
        None => json!([NEG_INF - 1, false]),
    }
}
fn djson(r: &DominanceCheckResult) -> (bool, i64) {
    (r.dominated, r.threshold.map(num).unwrap_or(NEG_INF - 1))
}

fn stores(args: &[String], out: &mut dyn Write) {
    let uv = arg(args, "--uv").map(|s| s == "true").unwrap_or(true);
    let mut seqs = load_seqs(args);
    let nrand = argn(args, "--random", 0);
    let len = argn(args, "--len", 200);
    let seed = argn(args, "--seed", 1);
    for i in 0..nrand {
        let mut r = StdRng::seed_from_u64(seed.wrapping_mul(1_000_003).wrapping_add(i) ^ 0xabcd);
        let mut s = vec![];
        for _ in 0..len {
            let x = r.gen_range(0..100);
            if x < 30 {
                s.push(json!(["upd", r.gen_range(0..3), letter(r.gen_range(1..4)), r.gen_range(-2..4), r.gen_bool(0.5)]));
            } else if x < 50 {
                s.push(json!(["get", r.gen_range(0..3), letter(r.gen_range(1..4))]));
            } else if x < 58 {
                s.push(json!(["must", r.gen_range(0..3), letter(r.gen_range(1..4)), r.gen_range(-2..4)]));
            } else if x < 61 {
                s.push(json!(["clear_layer", r.gen_range(0..3)]));
            } else if x < 62 {
                s.push(json!(["clear"]));
            } else if x < 98 {
                s.push(json!(["q", r.gen_range(0..3), if r.gen_bool(0.12) { 0 } else { r.gen_range(1..3) }, r.gen_range(0..4), r.gen_range(0..4), r.gen_range(0..4)]));
            } else {
                s.push(json!(["dclear_layer", r.gen_range(0..3)]));
            }
        }
        seqs.push(s);
    }
    for (run, seq) in seqs.iter().enumerate() {
        let mut cache: SimpleCache<St> = SimpleCache::default();
        cache.initialize(&Dummy(3));
        let chk = SimpleDominanceChecker::new(TD { use_value: uv }, 3);
        writeln!(out, "{}", json!({"ev":"reset","uv":uv,"run":run})).unwrap();
        for op in seq {
            let i = |k: usize| op[k].as_i64().unwrap();
            // a panic of the code under test is data: logged, and the run ends
            let res = std::panic::catch_unwind(std::panic::AssertUnwindSafe(|| {
            let out: &mut dyn Write = &mut *out;
            match op[0].as_str().unwrap() {
                "upd" => {
                    let st = op[2].as_str().unwrap();
                    cache.update_threshold(Arc::new(St { d: -1, x: unletter(st) }), i(1) as usize, i(3) as isize, op[4].as_bool().unwrap());
                    writeln!(out, "{}", json!({"ev":"cupd","depth":i(1),"st":st,"value":i(3),"explored":op[4]})).unwrap();
                }
                "get" => {
                    let st = op[2].as_str().unwrap();
                    let r = cache.get_threshold(&St { d: -1, x: unletter(st) }, i(1) as usize);
                    writeln!(out, "{}", json!({"ev":"cget","depth":i(1),"st":st,"ret":thjson(r)})).unwrap();
                }
                "must" => {
                    let st = op[2].as_str().unwrap();
                    let sp = SubProblem { state: Arc::new(St { d: -1, x: unletter(st) }), depth: i(1) as usize, value: i(3) as isize, ub: 0, path: vec![] };
                    let r = cache.must_explore(&sp);
                    writeln!(out, "{}", json!({"ev":"cmust","depth":i(1),"st":st,"value":i(3),"ret":r})).unwrap();
                }
                "clear_layer" => {
                    cache.clear_layer(i(1) as usize);
                    writeln!(out, "{}", json!({"ev":"cclear_layer","depth":i(1)})).unwrap();
                }
                "clear" => {
                    cache.clear();
                    writeln!(out, "{}", json!({"ev":"cclear"})).unwrap();
                }
                "q" => {
                    let r = chk.is_dominated_or_insert(Arc::new((i(2) as u8, i(3) as i8, i(4) as i8)), i(1) as usize, i(5) as isize);
                    let (d, t) = djson(&r);
                    writeln!(out, "{}", json!({"ev":"dquery","depth":i(1),"key":i(2),"c":[i(3),i(4)],"value":i(5),"dominated":d,"threshold":t})).unwrap();
                }
                "dclear_layer" => {
                    chk.clear_layer(i(1) as usize);
                    writeln!(out, "{}", json!({"ev":"dclear_layer","depth":i(1)})).unwrap();
                }
                o => panic!("unknown op {o}"),
            }
            }));
            if res.is_err() {
                writeln!(out, "{}", json!({"ev":"panic","store": if op[0].as_str().unwrap().starts_with('q') || op[0].as_str().unwrap().starts_with('d') { "dominance" } else { "cache" }, "op": op})).unwrap();
                break;
            }
        }
    }
}

/// the sorting comparator on every ordered pair of the alphabet
fn cmp(_args: &[String], out: &mut dyn Write) {
    for (run, uv) in [true, false].into_iter().enumerate() {
        writeln!(out, "{}", json!({"ev":"reset","uv":uv,"run":run})).unwrap();
        let chk = SimpleDominanceChecker::new(TD { use_value: uv }, 1);
        let alpha: Vec<(i8, i8, isize)> = (0..3).flat_map(|a| (0..3).flat_map(move |b| (0..3).map(move |v| (a, b, v)))).collect();
        for a in &alpha {
            for b in &alpha {
                let r = chk.cmp(&(0, a.0, a.1), a.2, &(0, b.0, b.1), b.2);
                let r = match r {
                    std::cmp::Ordering::Less => -1,
                    std::cmp::Ordering::Equal => 0,
                    std::cmp::Ordering::Greater => 1,
                };
                writeln!(out, "{}", json!({"ev":"dcmp","ca":[a.0,a.1],"va":a.2,"cb":[b.0,b.1],"vb":b.2,"ret":r})).unwrap();
            }
        }
    }
}

struct Stub(isize, isize);
impl Solver for Stub {
    fn maximize(&mut self) -> Completion {
        Completion { is_exact: false, best_value: None }
    }
    fn best_value(&self) -> Option<isize> {
        None
    }
    fn best_solution(&self) -> Option<Solution> {
        None
    }
    fn best_lower_bound(&self) -> isize {
        self.0
    }
    fn best_upper_bound(&self) -> isize {
        self.1
    }
    fn set_primal(&mut self, _: isize, _: Solution) {}
    fn explored(&self) -> usize {
        0
    }
}
pub fn gap_event(lb: isize, ub: isize, lr: usize, ur: usize) -> Value {
    let g = std::panic::catch_unwind(|| Stub(lb, ub).gap());
    match g {
        Ok(g) => json!({"ev":"gap","lb_rank":lr,"ub_rank":ur,"lb_sign":lb.signum(),"ub_sign":ub.signum(),
            "lb_inf": lb == isize::MIN, "ub_inf": ub == isize::MAX,
            "nan": g.is_nan(), "neg": g < 0.0, "zero": g == 0.0, "one": g == 1.0, "le1": g <= 1.0,
            "lb": lb.to_string(), "ub": ub.to_string(), "gap": format!("{g:e}")}),
        // a panic is data: it is neither 0, nor 1, nor <= 1
        Err(_) => json!({"ev":"gap","lb_rank":lr,"ub_rank":ur,"lb_sign":lb.signum(),"ub_sign":ub.signum(),
            "lb_inf": lb == isize::MIN, "ub_inf": ub == isize::MAX,
            "nan": true, "neg": false, "zero": false, "one": false, "le1": false,
            "lb": lb.to_string(), "ub": ub.to_string(), "gap": "panic"}),
    }
}
fn gap(args: &[String], out: &mut dyn Write) {
    let seed = argn(args, "--seed", 1);
    let extra = argn(args, "--random", 0);
    let mut grid: Vec<isize> = vec![
        isize::MIN, isize::MIN + 1, -(1 << 62) - 1, -(1 << 62), -(1 << 53) - 1, -(1 << 31), -(1 << 24) - 1, -1000, -7, -5, -2, -1, 0, 1, 2, 5, 7, 1000,
        (1 << 24) + 1, 1 << 31, (1 << 53) + 1, 1 << 62, (1 << 62) + 1, isize::MAX - 1, isize::MAX,
    ];
    let mut r = StdRng::seed_from_u64(seed);
    for _ in 0..extra {
        let mag = r.gen_range(0..63);
        let v: isize = r.gen_range(0..=(1isize << mag));
        grid.push(if r.gen_bool(0.5) { v } else { -v });
    }
    grid.sort();
    grid.dedup();
    std::panic::set_hook(Box::new(|_| {}));
    writeln!(out, "{}", json!({"ev":"reset","uv":true,"run":0})).unwrap();
    for (i, lb) in grid.iter().enumerate() {
        for (j, ub) in grid.iter().enumerate().skip(i) {
            writeln!(out, "{}", gap_event(*lb, *ub, i, j)).unwrap();
        }
    }
}
fn width(_args: &[String], out: &mut dyn Write) {
    writeln!(out, "{}", json!({"ev":"reset","uv":true,"run":0})).unwrap();
    let sp = SubProblem { state: Arc::new(St { d: 0, x: 0 }), depth: 0, value: 0, ub: 0, path: vec![Decision { variable: Variable(0), value: 0 }] };
    for k in 0..=8usize {
        for w in 0..=8usize {
            let r = WidthHeuristic::<St>::max_width(&Times(k, FixedWidth(w)), &sp);
            writeln!(out, "{}", json!({"ev":"width","comb":"times","k":k,"inner":w,"ret":r})).unwrap();
            if k >= 1 {
                let r = WidthHeuristic::<St>::max_width(&DivBy(k, FixedWidth(w)), &sp);
                writeln!(out, "{}", json!({"ev":"width","comb":"divby","k":k,"inner":w,"ret":r})).unwrap();
            }
            // composed with the other provided heuristic (n unassigned variables = w + 1 - |path|)
            let r = WidthHeuristic::<St>::max_width(&Times(k, NbUnassignedWidth(w + 1)), &sp);
            writeln!(out, "{}", json!({"ev":"width","comb":"times","k":k,"inner":w,"ret":r})).unwrap();
            if k >= 1 {
                let r = WidthHeuristic::<St>::max_width(&DivBy(k, NbUnassignedWidth(w + 1)), &sp);
                writeln!(out, "{}", json!({"ev":"width","comb":"divby","k":k,"inner":w,"ret":r})).unwrap();
            }
        }
    }
}

// ---------------------------------------------------------------- concurrency (C18)
static STAMP: AtomicU64 = AtomicU64::new(0);
fn stamp() -> u64 {
    STAMP.fetch_add(1, SeqCst)
}
fn lin(args: &[String], out: &mut dyn Write) {
    let phases = argn(args, "--phases", 100);
    let seed = argn(args, "--seed", 1);
    let max_threads = argn(args, "--threads", 8) as usize;
    let mut r = StdRng::seed_from_u64(seed ^ 0x11);
    for phase in 0..phases {
        let uv = r.gen_bool(0.7);
        let mut cache: SimpleCache<St> = SimpleCache::default();
        cache.initialize(&Dummy(2));
        let chk = SimpleDominanceChecker::new(TD { use_value: uv }, 2);
        let nt = r.gen_range(2..=max_threads);
        let nkeys = r.gen_range(1..=2u32);
        // plan: per thread 1..3 operations
        let plans: Vec<Vec<Value>> = (0..nt)
            .map(|_| {
                (0..r.gen_range(1..=3))
                    .map(|_| {
                        let x = r.gen_range(0..100);
                        let depth = r.gen_range(0..2);
                        if x < 35 {
                            json!({"op":"cupd","depth":depth,"st":letter(r.gen_range(1..=nkeys)),"value":r.gen_range(0..3),"explored":r.gen_bool(0.5)})
                        } else if x < 55 {
                            json!({"op":"cget","depth":depth,"st":letter(r.gen_range(1..=nkeys))})
                        } else if x < 58 {
                            json!({"op":"cclear_layer","depth":depth})
                        } else {
                            json!({"op":"dquery","depth":depth,"key":r.gen_range(1..=nkeys),"c":[r.gen_range(0..3),r.gen_range(0..3)],"value":r.gen_range(0..3)})
                        }
                    })
                    .collect()
            })
            .collect();
        let barrier = Barrier::new(nt);
        let mut evs: Vec<(u64, Value)> = vec![];
        let exec = |t: usize, o: &Value, evs: &mut Vec<(u64, Value)>| {
            let mut inv = o.clone();
            inv["ev"] = json!("inv");
            inv["t"] = json!(t);
            let s0 = stamp();
            let depth = o["depth"].as_u64().unwrap() as usize;
            // a panic of the store under test is data: the call gets a response no linearisation can explain
            let ret = std::panic::catch_unwind(std::panic::AssertUnwindSafe(|| match o["op"].as_str().unwrap() {
                "cupd" => {
                    cache.update_threshold(Arc::new(St { d: -1, x: unletter(o["st"].as_str().unwrap()) }), depth, o["value"].as_i64().unwrap() as isize, o["explored"].as_bool().unwrap());
                    json!({})
                }
                "cget" => json!({"ret": thjson(cache.get_threshold(&St { d: -1, x: unletter(o["st"].as_str().unwrap()) }, depth))}),
                "cclear_layer" => {
                    cache.clear_layer(depth);
                    json!({})
                }
                "dquery" => {
                    let c = &o["c"];
                    let res = chk.is_dominated_or_insert(Arc::new((o["key"].as_u64().unwrap() as u8, c[0].as_i64().unwrap() as i8, c[1].as_i64().unwrap() as i8)), depth, o["value"].as_i64().unwrap() as isize);
                    let (d, th) = djson(&res);
                    json!({"dominated": d, "threshold": th})
                }
                x => json!({"harness_error": x}),
            }));
            let s1 = stamp();
            let (mut res, kind) = match ret {
                Ok(r) => (r, "res"),
                Err(_) => (json!({}), "panicked"),
            };
            res["ev"] = json!(kind);
            res["t"] = json!(t);
            evs.push((s0, inv));
            evs.push((s1, res));
        };
        std::thread::scope(|sc| {
            let hs: Vec<_> = plans
                .iter()
                .enumerate()
                .map(|(t, plan)| {
                    let barrier = &barrier;
                    let exec = &exec;
                    sc.spawn(move || {
                        let mut mine = vec![];
                        barrier.wait();
                        for o in plan {
                            exec(t + 1, o, &mut mine);
                        }
                        mine
                    })
                })
                .collect();
            for h in hs {
                evs.extend(h.join().unwrap());
            }
        });
        // quiescent read-back: every cache key, and a probe of the dominance store on the whole alphabet
        for depth in 0..2 {
            for k in 1..=nkeys {
                exec(0, &json!({"op":"cget","depth":depth,"st":letter(k)}), &mut evs);
            }
        }
        for depth in 0..2 {
            for k in 1..=nkeys {
                for a in 0..3 {
                    for b in 0..3 {
                        // probing with the lowest value: dominated iff the front dominates it
                        exec(0, &json!({"op":"dquery","depth":depth,"key":k,"c":[a,b],"value":-1}), &mut evs);
                    }
                }
            }
        }
        evs.sort_by_key(|e| e.0);
        writeln!(out, "{}", json!({"ev":"reset","uv":uv,"run":phase,"threads":nt})).unwrap();
        for (_, e) in evs {
            writeln!(out, "{}", e).unwrap();
        }
    }
}

// ---------------------------------------------------------------- C18: systematic interleavings through a gated Hash impl
// DashMap calls the user's Hash on every operation: a state / key type whose `hash` pauses thread A at its n-th hashing,
// lets thread B run one whole operation, then resumes A, gives a deterministic enumeration of (operation pair, pause point).
// If B cannot finish because A holds the shard lock, A resumes after a short time-out (that point was atomic).
use std::cell::Cell;
use std::hash::{Hash, Hasher};
use std::sync::atomic::AtomicU8;
static GATE: AtomicU8 = AtomicU8::new(0); // 0 idle, 1 A paused, 2 B done
thread_local! { static PAUSE_AT: Cell<usize> = const { Cell::new(0) }; static HCOUNT: Cell<usize> = const { Cell::new(0) }; }
fn hash_hook() {
    let at = PAUSE_AT.with(|p| p.get());
    if at == 0 {
        return;
    }
    let c = HCOUNT.with(|c| {
        c.set(c.get() + 1);
        c.get()
    });
    if c == at {
        GATE.store(1, SeqCst);
        let t0 = std::time::Instant::now();
        while GATE.load(SeqCst) != 2 && t0.elapsed().as_millis() < 25 {
            std::thread::yield_now();
        }
    }
}
#[derive(Clone, PartialEq, Eq, Debug)]
struct HSt(u32);
impl Hash for HSt {
    fn hash<H: Hasher>(&self, h: &mut H) {
        hash_hook();
        self.0.hash(h)
    }
}
#[derive(Clone, Copy, PartialEq, Eq, Debug)]
struct HKey(u8);
impl Hash for HKey {
    fn hash<H: Hasher>(&self, h: &mut H) {
        hash_hook();
        self.0.hash(h)
    }
}
#[derive(Clone, Copy)]
struct HTD {
    use_value: bool,
}
impl Dominance for HTD {
    type State = DS;
    type Key = HKey;
    fn get_key(&self, s: Arc<DS>) -> Option<HKey> {
        Some(HKey(s.0))
    }
    fn nb_dimensions(&self, _: &DS) -> usize {
        2
    }
    // (order-preserving image of the small abstract coordinate reaching the ends of the isize range)
    fn get_coordinate(&self, s: &DS, i: usize) -> isize {
        let c = if i == 0 { s.1 as isize } else { s.2 as isize };
        (c - 2) * (isize::MAX / 2)
    }
    fn use_value(&self) -> bool {
        self.use_value
    }
}
struct HDummy;
impl Problem for HDummy {
    type State = HSt;
    fn nb_variables(&self) -> usize {
        2
    }
    fn initial_state(&self) -> HSt {
        HSt(0)
    }
    fn initial_value(&self) -> isize {
        0
    }
    fn transition(&self, s: &HSt, _: Decision) -> HSt {
        s.clone()
    }
    fn transition_cost(&self, _: &HSt, _: &HSt, _: Decision) -> isize {
        0
    }
    fn next_variable(&self, _: usize, _: &mut dyn Iterator<Item = &HSt>) -> Option<Variable> {
        None
    }
    fn for_each_in_domain(&self, _: Variable, _: &HSt, _: &mut dyn DecisionCallback) {}
}
fn hashgate(_args: &[String], out: &mut dyn Write) {
    let cache_ops: Vec<Value> = vec![
        json!({"op":"cupd","depth":0,"st":"a","value":1,"explored":true}),
        json!({"op":"cupd","depth":0,"st":"a","value":2,"explored":false}),
        json!({"op":"cupd","depth":0,"st":"a","value":2,"explored":true}),
        json!({"op":"cupd","depth":0,"st":"a","value":3,"explored":false}),
        json!({"op":"cget","depth":0,"st":"a"}),
        json!({"op":"cclear_layer","depth":0}),
    ];
    let dom_ops: Vec<Value> = vec![
        json!({"op":"dquery","depth":0,"key":1,"c":[1,1],"value":1}),
        json!({"op":"dquery","depth":0,"key":1,"c":[2,0],"value":1}),
        json!({"op":"dquery","depth":0,"key":1,"c":[2,2],"value":0}),
        json!({"op":"dquery","depth":0,"key":1,"c":[0,2],"value":2}),
        json!({"op":"dquery","depth":0,"key":1,"c":[1,1],"value":2}),
    ];
    let mut run = 0;
    for (kind, ops) in [("cache", &cache_ops), ("dom", &dom_ops)] {
        for pre in 0..2 {
            for a in ops.iter() {
                for b in ops.iter() {
                    for pause in 1..=6usize {
                        let mut cache: SimpleCache<HSt> = SimpleCache::default();
                        cache.initialize(&HDummy);
                        let chk = SimpleDominanceChecker::new(HTD { use_value: true }, 2);
                        let mut evs: Vec<(u64, Value)> = vec![];
                        let exec = |t: usize, o: &Value, evs: &mut Vec<(u64, Value)>| {
                            let mut inv = o.clone();
                            inv["ev"] = json!("inv");
                            inv["t"] = json!(t);
                            let s0 = stamp();
                            let depth = o["depth"].as_u64().unwrap() as usize;
                            let ret = match o["op"].as_str().unwrap() {
                                "cupd" => {
                                    cache.update_threshold(Arc::new(HSt(unletter(o["st"].as_str().unwrap()))), depth, o["value"].as_i64().unwrap() as isize, o["explored"].as_bool().unwrap());
                                    json!({})
                                }
                                "cget" => json!({"ret": thjson(cache.get_threshold(&HSt(unletter(o["st"].as_str().unwrap())), depth))}),
                                "cclear_layer" => {
                                    cache.clear_layer(depth);
                                    json!({})
                                }
                                _ => {
                                    let c = &o["c"];
                                    let res = chk.is_dominated_or_insert(Arc::new((o["key"].as_u64().unwrap() as u8, c[0].as_i64().unwrap() as i8, c[1].as_i64().unwrap() as i8)), depth, o["value"].as_i64().unwrap() as isize);
                                    let (d, th) = djson(&res);
                                    json!({"dominated": d, "threshold": th})
                                }
                            };
                            let s1 = stamp();
                            let mut res = ret;
                            res["ev"] = json!("res");
                            res["t"] = json!(t);
                            evs.push((s0, inv));
                            evs.push((s1, res));
                        };
                        // an initial entry so that updates take the occupied path as well
                        if pre == 1 {
                            exec(0, &ops[0], &mut evs);
                        }
                        GATE.store(0, SeqCst);
                        let a_done = std::sync::atomic::AtomicBool::new(false);
                        std::thread::scope(|sc| {
                            let exec = &exec;
                            let a_done = &a_done;
                            let ha = sc.spawn(move || {
                                let mut mine = vec![];
                                PAUSE_AT.with(|p| p.set(pause));
                                HCOUNT.with(|c| c.set(0));
                                exec(1, a, &mut mine);
                                PAUSE_AT.with(|p| p.set(0));
                                a_done.store(true, SeqCst);
                                mine
                            });
                            let hb = sc.spawn(move || {
                                let mut mine = vec![];
                                while GATE.load(SeqCst) != 1 && !a_done.load(SeqCst) {
                                    std::thread::yield_now();
                                }
                                exec(2, b, &mut mine);
                                GATE.store(2, SeqCst);
                                mine
                            });
                            evs.extend(ha.join().unwrap());
                            evs.extend(hb.join().unwrap());
                        });
                        // quiescent read-back
                        if kind == "cache" {
                            exec(0, &json!({"op":"cget","depth":0,"st":"a"}), &mut evs);
                        } else {
                            for x in 0..3 {
                                for y in 0..3 {
                                    exec(0, &json!({"op":"dquery","depth":0,"key":1,"c":[x,y],"value":-1}), &mut evs);
                                }
                            }
                        }
                        evs.sort_by_key(|e| e.0);
                        writeln!(out, "{}", json!({"ev":"reset","uv":true,"run":run,"threads":2,"hashgate":{"a":a,"b":b,"pause_at":pause,"prefilled":pre == 1}})).unwrap();
                        for (_, e) in evs {
                            writeln!(out, "{}", e).unwrap();
                        }
                        run += 1;
                    }
                }
            }
        }
    }
}

fn main() {
    let args: Vec<String> = std::env::args().collect();
    let outp = arg(&args, "--out").expect("--out");
    let mut out = BufWriter::new(std::fs::File::create(outp).unwrap());
    match args[1].as_str() {
        "fringe" => fringe(&args, &mut out),
        "stores" => stores(&args, &mut out),
        "cmp" => cmp(&args, &mut out),
        "gap" => gap(&args, &mut out),
        "width" => width(&args, &mut out),
        "lin" => lin(&args, &mut out),
        "hashgate" => hashgate(&args, &mut out),
        x => panic!("unknown engine command {x}"),
    }
    out.flush().unwrap();
}
