//! Outcome tables for the table mode of ParBnB (DESIGN.md 6.C03 (b)): for one tiny instance and one
//! configuration (diagram type, width; no cache, no dominance: compilations are then a pure function of
//! the sub-problem and the incumbent) the REAL compilers are called on every reachable
//! (sub-problem, incumbent) pair.  TLC then explores every interleaving of the protocol with exactly
//! the outcomes the real code produces, and its paths are replayed as schedules on the real solver.
use ddo::*;
use serde_json::{json, Value};
use std::collections::BTreeSet;
use vh::gen::*;
use vh::model::*;

fn arg(args: &[String], name: &str) -> Option<String> {
    args.iter().position(|a| a == name).and_then(|i| args.get(i + 1).cloned())
}

struct Core {
    sp: SubProblem<St>,
}

fn outcomes<D: DecisionDiagram<State = St> + Default>(m: &Model, width: usize, max_cores: usize) -> Option<Value> {
    let cache = EmptyCache::new();
    let dom = EmptyDominanceChecker::default();
    let cutoff = NoCutoff;
    let mut dd = D::default();
    let root = SubProblem { state: std::sync::Arc::new(m.initial_state()), value: m.initial_value(), path: vec![], ub: isize::MAX, depth: 0 };
    let mut cores: Vec<Core> = vec![Core { sp: root }];
    let mut lbs: BTreeSet<isize> = BTreeSet::new();
    lbs.insert(isize::MIN);
    let find = |cores: &Vec<Core>, sp: &SubProblem<St>| cores.iter().position(|c| c.sp.state == sp.state && c.sp.depth == sp.depth && c.sp.value == sp.value);
    // closure: iterate until no new core and no new incumbent value appears
    loop {
        let ncores = cores.len();
        let nlbs = lbs.len();
        for ci in 0..ncores {
            for lb in lbs.clone() {
                for ty in [CompilationType::Restricted, CompilationType::Relaxed] {
                    let sp = cores[ci].sp.clone();
                    let input = CompilationInput { comp_type: ty, max_width: width, problem: m, relaxation: m, ranking: m, cutoff: &cutoff, cache: &cache, dominance: &dom, residual: &sp, best_lb: lb };
                    if dd.compile(&input).is_err() {
                        return None;
                    }
                    if let Some(v) = dd.best_exact_value() {
                        if v > lb {
                            lbs.insert(v);
                        }
                    }
                    if ty == CompilationType::Relaxed && !dd.is_exact() {
                        let mut cs = vec![];
                        dd.drain_cutset(|c| cs.push(c));
                        for c in cs {
                            if find(&cores, &c).is_none() {
                                cores.push(Core { sp: c });
                            }
                        }
                    }
                }
            }
        }
        if cores.len() > max_cores || lbs.len() > 8 {
            return None;
        }
        if cores.len() == ncores && lbs.len() == nlbs {
            break;
        }
    }
    let lbv: Vec<isize> = lbs.iter().copied().collect();
    let mut restricted = vec![];
    let mut relaxed = vec![];
    for c in cores.iter() {
        let mut r1 = vec![];
        let mut r2 = vec![];
        for lb in lbv.iter() {
            for ty in [CompilationType::Restricted, CompilationType::Relaxed] {
                let input = CompilationInput { comp_type: ty, max_width: width, problem: m, relaxation: m, ranking: m, cutoff: &cutoff, cache: &cache, dominance: &dom, residual: &c.sp, best_lb: *lb };
                dd.compile(&input).ok()?;
                let exact = dd.is_exact();
                let bev = onum(dd.best_exact_value());
                if ty == CompilationType::Restricted {
                    r1.push(json!({"exact": exact, "bev": bev}));
                } else {
                    let mut cs = vec![];
                    if !exact {
                        dd.drain_cutset(|x| cs.push(x));
                    }
                    let csj: Vec<Value> = cs.iter().map(|x| json!({"core": find(&cores, x).unwrap() + 1, "ub": num(x.ub)})).collect();
                    r2.push(json!({"exact": exact, "bev": bev, "cs": csj}));
                }
            }
        }
        restricted.push(r1);
        relaxed.push(r2);
    }
    Some(json!({
        "inst": m.to_json(), "opt": onum(m.opt()),
        "cores": cores.iter().map(|c| json!({"depth": c.sp.depth, "polls": c.sp.depth < m.n, "st": m.sjson(&c.sp.state), "value": num(c.sp.value)})).collect::<Vec<_>>(),
        "lbs": lbv.iter().map(|v| num(*v)).collect::<Vec<_>>(),
        "restricted": restricted, "relaxed": relaxed, "maxdepth": m.n,
    }))
}

fn main() {
    let args: Vec<String> = std::env::args().collect();
    let outp = arg(&args, "--out").expect("--out");
    let seed: u64 = arg(&args, "--seed").map(|s| s.parse().unwrap()).unwrap_or(1);
    let want: usize = arg(&args, "--count").map(|s| s.parse().unwrap()).unwrap_or(3);
    let fam = arg(&args, "--family").unwrap_or("lifted".into());
    let min_cores: usize = arg(&args, "--min-cores").map(|s| s.parse().unwrap()).unwrap_or(3);
    let max_cores: usize = arg(&args, "--max-cores").map(|s| s.parse().unwrap()).unwrap_or(7);
    let mut out = vec![];
    let mut i = 0u64;
    while out.len() < want && i < 4000 {
        i += 1;
        let m = gen_model(&fam, seed.wrapping_mul(104729).wrapping_add(i), 5, true);
        if m.family == Family::SetPack || m.long_arcs {
            continue;
        }
        let dd = ["lel", "fc", "pooled"][(i % 3) as usize];
        let width = 1 + (i as usize / 3) % 2;
        let t = match dd {
            "lel" => outcomes::<Mdd<St, { LAST_EXACT_LAYER }>>(&m, width, max_cores),
            "fc" => outcomes::<Mdd<St, { FRONTIER }>>(&m, width, max_cores),
            _ => outcomes::<Pooled<St>>(&m, width, max_cores),
        };
        if let Some(mut t) = t {
            if t["cores"].as_array().unwrap().len() >= min_cores {
                t["dd"] = json!(dd);
                t["width"] = json!(width);
                out.push(t);
            }
        }
    }
    std::fs::write(outp, serde_json::to_string(&out).unwrap()).unwrap();
}
