//! Engine `par`: the real ParallelSolver under the deterministic scheduler (or free-running), every
//! critical section, fringe / cache operation and compilation recorded.  A run that deadlocks or
//! livelocks cannot be cancelled (threads inside thread::scope): the verdict and the trace so far are
//! written and the process exits with status 3; the caller restarts it after that job (`--start`).
use ddo::*;
use rand::{rngs::StdRng, Rng, SeedableRng};
use serde_json::{json, Value};
use std::io::{BufWriter, Write};
use std::sync::atomic::{AtomicBool, Ordering::SeqCst};
use std::sync::Arc;
use vh::gen::*;
use vh::model::*;
use vh::rec::*;
use vh::sched::*;

fn arg(args: &[String], name: &str) -> Option<String> {
    args.iter().position(|a| a == name).and_then(|i| args.get(i + 1).cloned())
}
fn argn(args: &[String], name: &str, default: u64) -> u64 {
    arg(args, name).map(|s| s.parse().unwrap()).unwrap_or(default)
}

#[derive(Clone, Debug)]
pub struct PCfg {
    pub dd: String,
    pub cache: bool,
    pub dom: bool,
    pub fringe: String,
    pub width: usize,
    pub nconstr: usize,
    pub nspawn: usize,
    /// "random" | "pct" | "policy" | "free"
    pub sched: String,
    pub sseed: u64,
    pub policy: Vec<usize>,
    pub cut_step: Option<usize>,
    pub cut_poll: usize,
    pub cache_gates: bool,
    pub primal: Vec<(isize, Vec<Decision>)>,
}
impl PCfg {
    fn json(&self) -> Value {
        json!({"dd":self.dd,"cache":self.cache,"dom":self.dom,"fringe":self.fringe,"width":self.width,"nconstr":self.nconstr,"nspawn":self.nspawn,
               "sched":self.sched,"sseed":self.sseed,"policy":self.policy,"cut_step":self.cut_step.map(|x| x as i64).unwrap_or(-1),"cut_poll":self.cut_poll,
               "cache_gates":self.cache_gates,"nprimal":self.primal.len()})
    }
    fn from_json(v: &Value) -> PCfg {
        PCfg {
            dd: v["dd"].as_str().unwrap().into(),
            cache: v["cache"].as_bool().unwrap(),
            dom: v["dom"].as_bool().unwrap(),
            fringe: v["fringe"].as_str().unwrap().into(),
            width: v["width"].as_u64().unwrap() as usize,
            nconstr: v["nconstr"].as_u64().unwrap() as usize,
            nspawn: v["nspawn"].as_u64().unwrap() as usize,
            sched: v["sched"].as_str().unwrap().into(),
            sseed: v["sseed"].as_u64().unwrap(),
            policy: v["policy"].as_array().unwrap().iter().map(|x| x.as_u64().unwrap() as usize).collect(),
            cut_step: if v["cut_step"].as_i64().unwrap() < 0 { None } else { Some(v["cut_step"].as_i64().unwrap() as usize) },
            cut_poll: v["cut_poll"].as_u64().unwrap() as usize,
            cache_gates: v["cache_gates"].as_bool().unwrap(),
            primal: vec![],
        }
    }
}
const WATCHDOG: usize = 20000;

fn soljson(s: &Option<Solution>) -> Value {
    match s {
        Some(s) => json!({"some": true, "decs": s.iter().map(Model::djson).collect::<Vec<_>>()}),
        None => json!({"some": false, "decs": []}),
    }
}

/// returns (events, return event); never returns on deadlock / livelock (see module doc): `on_stuck` is called first
fn go<D, C>(m: &Model, cfg: &PCfg, on_stuck: &mut dyn FnMut(Vec<Value>, Value)) -> (Vec<Value>, Value)
where
    D: DecisionDiagram<State = St> + Default + Send,
    C: Cache<State = St> + Send + Sync + Default,
{
    set_model(m);
    take_log();
    WORKER.with(|w| w.set(0));
    let rm = RecModel(m);
    let width = FixedWidth(cfg.width);
    let stop = Arc::new(AtomicBool::new(false));
    let cutoff = CountingCutoff { flag: stop.clone(), watchdog: WATCHDOG, ..CountingCutoff::new(cfg.cut_poll) };
    let empty_dom = EmptyDominanceChecker::default();
    let real_dom = RecDominance { inner: SimpleDominanceChecker::new(ModelDominance(m), m.n), m };
    let dom: &(dyn DominanceChecker<State = St> + Send + Sync) = if cfg.dom { &real_dom } else { &empty_dom };
    let mut f1 = RecFringe { inner: SimpleFringe::new(MaxUB::new(m)), m };
    let mut f2 = RecFringe { inner: NoDupFringe::new(MaxUB::new(m)), m };
    let fringe: &mut (dyn Fringe<State = St> + Send + Sync) = if cfg.fringe == "nodup" { &mut f2 } else { &mut f1 };
    let scheduled = cfg.sched != "free";
    let sched = if scheduled {
        let pct = if cfg.sched == "pct" {
            let mut r = StdRng::seed_from_u64(cfg.sseed);
            let mut prio: Vec<usize> = (0..cfg.nspawn).map(|i| 100 + i).collect();
            for i in (1..prio.len()).rev() {
                prio.swap(i, r.gen_range(0..=i));
            }
            Some((prio, (0..3).map(|_| r.gen_range(0..60)).collect()))
        } else {
            None
        };
        let s = Sched::new(cfg.nspawn, cfg.sseed, cfg.policy.clone(), cfg.cut_step, pct, stop.clone());
        s.cache_gates.store(cfg.cache_gates, SeqCst);
        s.install();
        set_global_sched(Some(s.clone()));
        Some(s)
    } else {
        install_free_running();
        None
    };
    let mut solver = ParallelSolver::<St, RecDD<D>, RecCache<C>>::custom(&rm, &rm, &rm, &width, dom, &cutoff, fringe, cfg.nconstr);
    if cfg.nspawn != cfg.nconstr {
        solver = solver.with_nb_threads(cfg.nspawn);
    }
    for (v, sol) in cfg.primal.iter() {
        solver.set_primal(*v, sol.clone());
        emit(json!({"ev":"set_primal","value":num(*v),"sol":soljson(&Some(sol.clone())),"lb_after":num(solver.best_lower_bound()),
                    "val_after":onum(solver.best_value()),"sol_after":soljson(&solver.best_solution())}));
    }
    let result: std::sync::Mutex<Option<std::thread::Result<Completion>>> = std::sync::Mutex::new(None);
    std::thread::scope(|sc| {
        let solver_ref = &mut solver;
        let result = &result;
        let sched_done = sched.clone();
        let h = sc.spawn(move || {
            let c = std::panic::catch_unwind(std::panic::AssertUnwindSafe(|| solver_ref.maximize()));
            *result.lock().unwrap() = Some(c);
            if let Some(s) = &sched_done {
                s.main_done.store(true, SeqCst);
            }
        });
        if let Some(s) = &sched {
            let s2 = s.clone();
            let th = sc.spawn(move || s2.run());
            th.join().unwrap();
            let sum = s.summary();
            if sum["verdict"] != "done" {
                let evs = take_log();
                on_stuck(evs, json!({"ev":"stuck","verdict":sum["verdict"],"sched":sum}));
                std::process::exit(3);
            }
        } else {
            // free running: a watchdog thread turns a hang into a verdict
            let t0 = std::time::Instant::now();
            while !h.is_finished() {
                std::thread::sleep(std::time::Duration::from_micros(250));
                if t0.elapsed().as_secs() > 20 {
                    let evs = take_log();
                    on_stuck(evs, json!({"ev":"stuck","verdict":"hang","sched":{"steps":0,"granted":[],"diverged":0,"workers":[]}}));
                    std::process::exit(3);
                }
            }
        }
        h.join().unwrap();
    });
    ddo::verif_hooks::set_callback(None);
    set_global_sched(None);
    let evs = take_log();
    let polls = cutoff.polls.load(SeqCst);
    let watchdog = cutoff.dog.load(SeqCst);
    let res = result.lock().unwrap().take().unwrap();
    let fired = stop.load(SeqCst) || (cfg.cut_poll != 0 && polls >= cfg.cut_poll);
    let sum = sched.as_ref().map(|s| s.summary()).unwrap_or(json!({"steps":0,"granted":[],"diverged":0,"verdict":"done","workers":[]}));
    let rootcs = {
        let mut cur: std::collections::HashMap<i64, Value> = Default::default();
        let mut hit = false;
        for e in evs.iter() {
            let w = e["w"].as_i64().unwrap_or(0);
            if e["ev"] == "compile" {
                cur.insert(w, e["root"].clone());
            } else if e["ev"] == "cutset" {
                if let Some(r) = cur.get(&w) {
                    hit |= e["nodes"].as_array().unwrap().iter().any(|n| n["st"] == r["st"] && n["depth"] == r["depth"]);
                }
            }
        }
        hit
    };
    let describe = |res: &std::thread::Result<Completion>, solver: &ParallelSolver<St, RecDD<D>, RecCache<C>>, polls: usize, watchdog: bool, again: bool| match res {
        Ok(c) => {
            let (lb, ub) = (solver.best_lower_bound(), solver.best_upper_bound());
            let g = solver.gap();
            json!({"ev":"return","again":again,"panicked":false,"is_exact":c.is_exact,"cval":onum(c.best_value),"best_value":onum(solver.best_value()),
                   "has_value": solver.best_value().is_some(), "best_lb":num(lb),"best_ub":num(ub),"sol":soljson(&solver.best_solution()),
                   "explored":solver.explored(),"polls":polls,"watchdog":watchdog,"root_in_cutset":rootcs,"cutoff_fired":fired,"sched":sum.clone(),
                   "gap": {"nan": g.is_nan(), "neg": g < 0.0, "zero": g == 0.0, "one": g == 1.0, "le1": g <= 1.0, "text": format!("{g:e}"),
                           "lb": lb.to_string(), "ub": ub.to_string()}})
        }
        Err(_) => json!({"ev":"return","again":again,"panicked":true,"is_exact":false,"cval":NEG_INF,"best_value":NEG_INF,"has_value":false,"best_lb":NEG_INF,"best_ub":POS_INF,
                         "sol":soljson(&None),"explored":0,"polls":polls,"watchdog":watchdog,"root_in_cutset":rootcs,"cutoff_fired":fired,"sched":sum.clone(),
                         "gap":{"nan":false,"neg":false,"zero":false,"one":true,"le1":true,"text":"-","lb":"-","ub":"-"}}),
    };
    let mut ret = describe(&res, &solver, polls, watchdog, false);
    // a run that was cut off is asked to go on: maximize() once more on the same solver (free running, the cutoff keeps answering 'stop');
    // what it reports then must still be sound (C05)
    if fired && !watchdog && matches!(&res, Ok(c) if !c.is_exact) {
        install_free_running();
        stop.store(true, SeqCst);
        let result2: std::sync::Mutex<Option<std::thread::Result<Completion>>> = std::sync::Mutex::new(None);
        std::thread::scope(|sc| {
            let solver_ref = &mut solver;
            let result2 = &result2;
            let h = sc.spawn(move || {
                let c = std::panic::catch_unwind(std::panic::AssertUnwindSafe(|| solver_ref.maximize()));
                *result2.lock().unwrap() = Some(c);
            });
            let t0 = std::time::Instant::now();
            while !h.is_finished() {
                std::thread::sleep(std::time::Duration::from_millis(1));
                if t0.elapsed().as_secs() > 20 {
                    let mut evs = evs.clone();
                    evs.push(ret.clone());
                    on_stuck(evs, json!({"ev":"stuck","verdict":"hang","sched":{"steps":0,"granted":[],"diverged":0,"workers":[]}}));
                    std::process::exit(3);
                }
            }
            h.join().unwrap();
        });
        ddo::verif_hooks::set_callback(None);
        take_log();
        let res2 = result2.lock().unwrap().take().unwrap();
        ret["second"] = describe(&res2, &solver, cutoff.polls.load(SeqCst), cutoff.dog.load(SeqCst), true);
    }
    (evs, ret)
}

pub fn run_par(m: &Model, cfg: &PCfg, on_stuck: &mut dyn FnMut(Vec<Value>, Value)) -> (Vec<Value>, Value) {
    match (cfg.dd.as_str(), cfg.cache) {
        ("lel", false) => go::<Mdd<St, { LAST_EXACT_LAYER }>, EmptyCache<St>>(m, cfg, on_stuck),
        ("lel", true) => go::<Mdd<St, { LAST_EXACT_LAYER }>, SimpleCache<St>>(m, cfg, on_stuck),
        ("fc", false) => go::<Mdd<St, { FRONTIER }>, EmptyCache<St>>(m, cfg, on_stuck),
        ("fc", true) => go::<Mdd<St, { FRONTIER }>, SimpleCache<St>>(m, cfg, on_stuck),
        ("pooled", false) => go::<Pooled<St>, EmptyCache<St>>(m, cfg, on_stuck),
        ("pooled", true) => go::<Pooled<St>, SimpleCache<St>>(m, cfg, on_stuck),
        _ => panic!("bad dd"),
    }
}

fn main() {
    let args: Vec<String> = std::env::args().collect();
    let outp = arg(&args, "--out").expect("--out");
    let seed = argn(&args, "--seed", 1);
    let insts = argn(&args, "--instances", 10) as usize;
    let fam = arg(&args, "--family").unwrap_or("allimpacted".into());
    let mode = arg(&args, "--mode").unwrap_or("sched".into());
    let maxn = argn(&args, "--maxn", 5) as usize;
    let start = argn(&args, "--start", 0) as usize;
    let per = argn(&args, "--per-instance", 6) as usize;
    let max_threads = argn(&args, "--threads", 3) as usize;
    let jobs_file = arg(&args, "--jobs");
    let force = arg(&args, "--cfg").map(|s| serde_json::from_str::<Value>(&s).unwrap());
    std::panic::set_hook(Box::new(|_| {}));
    let mut w = BufWriter::new(std::fs::OpenOptions::new().create(true).append(true).open(outp).unwrap());
    // ---- build the deterministic job list
    let mut jobs: Vec<(Model, PCfg, String)> = vec![];
    // --sweep k (mode free): k further instances per listed instance are solved free-running WITHOUT being written out, unless the outcome
    // disagrees with the harness' own optimum (those are written like any other run and judged by TLC)
    let sweep = argn(&args, "--sweep", 0) as usize;
    let mut quiet: Vec<bool> = vec![];
    if let Some(f) = jobs_file {
        // explicit jobs: [{inst, cfg, role}]
        let v: Vec<Value> = serde_json::from_str(&std::fs::read_to_string(f).unwrap()).unwrap();
        for j in v.iter() {
            jobs.push((Model::from_json(&j["inst"]), PCfg::from_json(&j["cfg"]), j["role"].as_str().unwrap_or("job").to_string()));
        }
    } else {
        let mut r = StdRng::seed_from_u64(seed ^ 0x9a7);
        for i in 0..insts {
            let m = gen_model(&fam, seed.wrapping_mul(7919).wrapping_add(i as u64), maxn, true);
            let base = PCfg {
                dd: ["lel", "fc", "pooled"][r.gen_range(0..3)].into(),
                cache: r.gen_bool(0.5),
                dom: m.dom != DomMode::None && r.gen_bool(0.3),
                fringe: ["simple", "nodup"][r.gen_range(0..2)].into(),
                width: [1, 1, 1, 2, 2, 3][r.gen_range(0..6)],
                nconstr: 2,
                nspawn: 2,
                sched: "random".into(),
                sseed: 0,
                policy: vec![],
                cut_step: None,
                cut_poll: 0,
                cache_gates: false,
                primal: vec![],
            };
            let mut base = base;
            if let Some(f) = &force {
                if let Some(d) = f["dd"].as_str() {
                    base.dd = d.into();
                }
                if let Some(d) = f["fringe"].as_str() {
                    base.fringe = d.into();
                }
                if let Some(d) = f["width"].as_u64() {
                    base.width = d as usize;
                }
                if let Some(d) = f["cache"].as_bool() {
                    base.cache = d;
                }
            }
            for k in 0..per {
                let nt = r.gen_range(1..=max_threads);
                let mut c = PCfg { nconstr: nt, nspawn: nt, sseed: r.gen(), ..base.clone() };
                match mode.as_str() {
                    "sched" => {
                        c.sched = if k % 3 == 2 { "pct".into() } else { "random".into() };
                        c.cache_gates = c.cache && k % 2 == 1;
                        jobs.push((Model::from_json(&m.to_json()), c, "sched".into()));
                    }
                    "threads" => {
                        // thread count changed after construction, both directions
                        c.nconstr = r.gen_range(1..=max_threads);
                        c.nspawn = r.gen_range(1..=max_threads + 1);
                        jobs.push((Model::from_json(&m.to_json()), c, "sched".into()));
                    }
                    "cut" => {
                        // the cutoff flag is raised at scheduler step k: swept by the caller through --jobs; here: a sample of steps
                        c.cut_step = Some(r.gen_range(0..40));
                        jobs.push((Model::from_json(&m.to_json()), c, "cut".into()));
                    }
                    "free" => {
                        c.sched = "free".into();
                        c.nconstr = r.gen_range(2..=16);
                        c.nspawn = c.nconstr;
                        c.cut_poll = if k % 2 == 1 { r.gen_range(1..30) } else { 0 };
                        jobs.push((Model::from_json(&m.to_json()), c, if k % 2 == 1 { "cut".into() } else { "free".into() }));
                        if k == 0 {
                            for j in 0..sweep {
                                let m2 = gen_model(&fam, seed.wrapping_mul(104729).wrapping_add((i * sweep + j) as u64), maxn, true);
                                let nt = [1, 1, 2, 3, 4, 6][r.gen_range(0..6)];
                                let c2 = PCfg { sched: "free".into(), nconstr: nt, nspawn: nt, cut_poll: 0, sseed: r.gen(), dd: ["lel", "fc", "pooled"][r.gen_range(0..3)].into(),
                                                cache: r.gen_bool(0.5), dom: false, width: [1, 1, 2, 2, 3][r.gen_range(0..5)], ..base.clone() };
                                jobs.push((m2, c2, "free".into()));
                                while quiet.len() < jobs.len() - 1 {
                                    quiet.push(false);
                                }
                                quiet.push(true);
                            }
                        }
                    }
                    "primal" => {
                        if let (Some((vo, so)), Some((vw, sw))) = (m.witness(false), m.witness(true)) {
                            c.primal = match k % 4 {
                                0 => vec![(vo, so)],
                                1 => vec![(vw, sw)],
                                2 => vec![(vw, sw), (vo, so)],
                                // the same value twice with two different solutions: the incumbent must not be replaced
                                _ => vec![(vw, sw.clone()), (vw, {
                                    let mut s2 = sw;
                                    s2.reverse();
                                    s2
                                })],
                            };
                            jobs.push((Model::from_json(&m.to_json()), c, "primal".into()));
                        }
                    }
                    x => panic!("unknown mode {x}"),
                }
            }
        }
    }
    let (mut swept, mut suspects) = (0usize, 0usize);
    for (run, (m, cfg, role)) in jobs.iter().enumerate().skip(start) {
        let reset = json!({"ev":"reset","run":run,"inst":m.to_json(),"cfg":cfg.json(),"role":role,
                           "level": if cfg.sched == "free" { "locked" } else { "full" }});
        let (evs, ret) = {
            let mut stuck = |evs: Vec<Value>, verdict: Value| {
                writeln!(w, "{}", reset).unwrap();
                write_events(&mut w, &evs);
                writeln!(w, "{}", verdict).unwrap();
                w.flush().unwrap();
            };
            run_par(m, cfg, &mut stuck)
        };
        if quiet.get(run).copied().unwrap_or(false) {
            let val = if ret["has_value"].as_bool().unwrap() { Some(ret["best_value"].as_i64().unwrap()) } else { None };
            let bad = ret["panicked"].as_bool().unwrap() || ret["watchdog"].as_bool().unwrap() || !ret["is_exact"].as_bool().unwrap() || val != m.opt().map(|o| o as i64)
                || !m.solution_consistent(&ret)
                || (ret["has_value"].as_bool().unwrap() && ret["best_ub"] != ret["best_value"]);
            swept += 1;
            if !bad {
                continue;
            }
            suspects += 1;
        }
        writeln!(w, "{}", reset).unwrap();
        if cfg.sched == "free" {
            // lock-free events are not totally ordered with the rest: keep the lock-protected protocol only
            let keep: Vec<Value> = evs.into_iter().filter(|e| matches!(e["ev"].as_str().unwrap(), "locked" | "workload" | "wait" | "notified" | "push" | "pop" | "pop_none" | "fclear" | "wexit" | "set_primal")).collect();
            write_events(&mut w, &keep);
        } else {
            write_events(&mut w, &evs);
        }
        let mut ret = ret;
        let second = ret.as_object_mut().unwrap().remove("second");
        writeln!(w, "{}", ret).unwrap();
        if let Some(s2) = second {
            writeln!(w, "{}", s2).unwrap();
        }
        w.flush().unwrap();
    }
    if sweep > 0 {
        eprintln!("SWEEP runs={} suspects={}", swept, suspects);
    }
}
