//! Deterministic cooperative scheduler over the verification hooks of parallel.rs (DESIGN.md 4.3).
//! A worker that reaches a gate (just before `critical.lock()`, optionally before a cache operation)
//! blocks until granted; exactly one worker runs at a time, up to its next gate, its condvar wait, or
//! its exit.  The scheduler acts only at quiescence.  Deadlock = quiescent state with nobody at a gate,
//! somebody parked and not everybody exited: definitive, no time-out involved.
use crate::rec::{emit, WORKER};
use ddo::verif_hooks::{set_callback, Event};
use serde_json::{json, Value};
use std::collections::HashMap;
use std::sync::atomic::{AtomicBool, Ordering::SeqCst};
use std::sync::{Arc, Condvar, Mutex};
use std::thread::ThreadId;
use std::time::{Duration, Instant};

#[derive(Clone, Copy, Debug, PartialEq)]
pub enum W {
    NotStarted,
    Running,
    /// (site, inside a critical section, gate in front of a lock acquisition)
    AtGate(&'static str, bool, bool),
    Parked,
    Waking(Instant),
    Exited(bool),
}
#[derive(Clone, Debug, PartialEq)]
pub enum Verdict {
    Running,
    Done,
    Deadlock,
    /// step budget exhausted: the workers keep taking steps without finishing
    Livelock,
}
pub struct S {
    pub w: Vec<W>,
    tid: HashMap<ThreadId, usize>,
    granted: Option<usize>,
    pub steps: usize,
    pub verdict: Verdict,
    /// workers to grant at successive steps (followed while possible), then pseudo-random
    pub policy: Vec<usize>,
    pub cut_at_step: Option<usize>,
    rng: u64,
    /// PCT-style priorities: when set, the runnable worker with the highest priority is granted, priorities change at `change_points`
    pub pct: Option<(Vec<usize>, Vec<usize>)>,
    pub granted_log: Vec<usize>,
    pub diverged: usize,
    pub max_steps: usize,
    /// window stretching: while a worker waits at a cache gate inside a critical section, let the others run for a while
    hold_left: Option<usize>,
}
pub struct Sched {
    pub s: Mutex<S>,
    cv: Condvar,
    pub stop: Arc<AtomicBool>,
    pub cache_gates: AtomicBool,
    /// maximize() has returned (or panicked): if no worker ever started, there is nothing to schedule
    pub main_done: AtomicBool,
}

thread_local! { static IS_WORKER: std::cell::Cell<bool> = const { std::cell::Cell::new(false) }; }
// set between Locked and AfterUnlock: gates reached meanwhile are marked, see `run`
thread_local! { static IN_CS: std::cell::Cell<bool> = const { std::cell::Cell::new(false) }; }

impl Sched {
    pub fn new(nspawn: usize, seed: u64, policy: Vec<usize>, cut_at_step: Option<usize>, pct: Option<(Vec<usize>, Vec<usize>)>, stop: Arc<AtomicBool>) -> Arc<Sched> {
        Arc::new(Sched {
            s: Mutex::new(S { w: vec![W::NotStarted; nspawn], tid: HashMap::new(), granted: None, steps: 0, verdict: Verdict::Running, policy, cut_at_step,
                              rng: seed.wrapping_mul(0x9E3779B97F4A7C15) | 1, pct, granted_log: vec![], diverged: 0, max_steps: 60_000, hold_left: None }),
            cv: Condvar::new(),
            stop,
            cache_gates: AtomicBool::new(false),
            main_done: AtomicBool::new(false),
        })
    }
    fn me(&self, s: &S) -> Option<usize> {
        s.tid.get(&std::thread::current().id()).copied()
    }
    /// a gate: block until granted (called from worker threads only)
    pub fn gate(&self, site: &'static str, lock_gate: bool) {
        let in_cs = IN_CS.with(|w| w.get());
        let mut s = self.s.lock().unwrap();
        if let Some(i) = self.me(&s) {
            s.w[i] = W::AtGate(site, in_cs, lock_gate);
            self.cv.notify_all();
            while s.granted != Some(i) {
                s = self.cv.wait(s).unwrap();
            }
            s.granted = None;
            s.w[i] = W::Running;
        }
    }
    pub fn cache_gate(&self, site: &'static str) {
        // also inside a critical section: the scheduler then only grants workers that are not about to take the lock
        if self.cache_gates.load(SeqCst) && IS_WORKER.with(|w| w.get()) {
            self.gate(site, false)
        }
    }
    pub fn on_event(&self, e: Event) {
        match e {
            Event::WorkerStart(i) => {
                WORKER.with(|w| w.set(i as i64 + 1));
                IS_WORKER.with(|w| w.set(true));
                let mut s = self.s.lock().unwrap();
                s.tid.insert(std::thread::current().id(), i);
                s.w[i] = W::Running;
                drop(s);
                emit(json!({"ev":"wstart"}));
                self.cv.notify_all();
            }
            Event::WorkerExit { worker, panicked } => {
                emit(json!({"ev":"wexit","panicked":panicked}));
                let mut s = self.s.lock().unwrap();
                s.w[worker] = W::Exited(panicked);
                self.cv.notify_all();
            }
            Event::BeforeLock(site) => self.gate(site, true),
            Event::Locked(site, snap) => {
                IN_CS.with(|w| w.set(true));
                emit(json!({"ev":"locked","site":site,"ongoing":snap.ongoing,"fringe_len":snap.fringe_len,"best_lb":crate::model::num(snap.best_lb),
                "best_ub":crate::model::num(snap.best_ub),"aborted":snap.aborted,"explored":snap.explored,"first_active":snap.first_active_layer}))
            }
            Event::AfterUnlock(_) => IN_CS.with(|w| w.set(false)),
            Event::Workload(what) => emit(json!({"ev":"workload","what":what})),
            Event::BeforeWait => {
                emit(json!({"ev":"wait"}));
                let mut s = self.s.lock().unwrap();
                if let Some(i) = self.me(&s) {
                    s.w[i] = W::Parked;
                    self.cv.notify_all();
                }
            }
            Event::AfterNotifyAll => {
                emit(json!({"ev":"notified"}));
                let now = Instant::now();
                let mut s = self.s.lock().unwrap();
                for x in s.w.iter_mut() {
                    if *x == W::Parked {
                        *x = W::Waking(now);
                    }
                }
            }
        }
    }
    fn next_rand(s: &mut S) -> u64 {
        s.rng ^= s.rng << 13;
        s.rng ^= s.rng >> 7;
        s.rng ^= s.rng << 17;
        s.rng
    }
    /// the scheduler loop; runs in its own thread until every worker exited, or a deadlock / livelock is established
    pub fn run(&self) {
        let mut s = self.s.lock().unwrap();
        let mut grace: Option<Instant> = None;
        loop {
            let now = Instant::now();
            for x in s.w.iter_mut() {
                if let W::Waking(t) = *x {
                    // a parked worker that does not show up after a notification is still parked (e.g. notify_one)
                    if now.duration_since(t) > Duration::from_millis(400) {
                        *x = W::Parked;
                    }
                }
            }
            if self.main_done.load(std::sync::atomic::Ordering::SeqCst) && s.w.iter().all(|x| matches!(x, W::NotStarted | W::Exited(_))) {
                // maximize() is over and every worker that started has exited (e.g. a panic before the workers were spawned)
                s.verdict = Verdict::Done;
                return;
            }
            let busy = s.granted.is_some() || s.w.iter().any(|x| matches!(x, W::Running | W::NotStarted | W::Waking(_)));
            if busy {
                let (g, _) = self.cv.wait_timeout(s, Duration::from_millis(20)).unwrap();
                s = g;
                continue;
            }
            if s.w.iter().all(|x| matches!(x, W::Exited(_))) {
                s.verdict = Verdict::Done;
                return;
            }
            let mut gates: Vec<usize> = (0..s.w.len()).filter(|&i| matches!(s.w[i], W::AtGate(..))).collect();
            // somebody waits at a cache gate while holding the critical lock: whoever is granted must not need that lock
            if gates.iter().any(|&i| matches!(s.w[i], W::AtGate(_, true, _))) {
                gates.retain(|&i| matches!(s.w[i], W::AtGate(_, true, _) | W::AtGate(_, _, false)));
            }
            if gates.is_empty() {
                // nobody can ever call notify_all again. Observe a grace period so that a slow wake-up is never mistaken for a deadlock.
                match grace {
                    None => {
                        grace = Some(Instant::now());
                        continue;
                    }
                    Some(t) if t.elapsed() < Duration::from_millis(1500) => {
                        let (g, _) = self.cv.wait_timeout(s, Duration::from_millis(50)).unwrap();
                        s = g;
                        continue;
                    }
                    _ => {
                        s.verdict = Verdict::Deadlock;
                        return;
                    }
                }
            }
            grace = None;
            let step = s.steps;
            s.steps += 1;
            if step >= s.max_steps {
                s.verdict = Verdict::Livelock;
                return;
            }
            if s.cut_at_step == Some(step) {
                self.stop.store(true, SeqCst);
                emit(json!({"ev":"cutoff_fires","step":step}));
            }
            let pick = if step < s.policy.len() && gates.contains(&s.policy[step]) {
                s.policy[step]
            } else {
                if step < s.policy.len() {
                    s.diverged += 1;
                }
                if let Some((prio, changes)) = s.pct.clone() {
                    // PCT: highest priority runnable worker; at a change point the running one drops to the lowest priority
                    let mut prio = prio;
                    let best = *gates.iter().max_by_key(|&&i| prio[i]).unwrap();
                    if changes.contains(&step) {
                        let low = prio.iter().min().copied().unwrap_or(0);
                        prio[best] = low.saturating_sub(1);
                    }
                    s.pct = Some((prio, changes));
                    best
                } else {
                    // random mode. A worker gated inside a critical section (between two cache operations of get_workload) opens a
                    // window in which the cache may change under it: stretch that window by a random number of steps of the others.
                    let holders: Vec<usize> = gates.iter().copied().filter(|&i| matches!(s.w[i], W::AtGate(_, true, _))).collect();
                    let others: Vec<usize> = gates.iter().copied().filter(|i| !holders.contains(i)).collect();
                    if !holders.is_empty() && !others.is_empty() {
                        if s.hold_left.is_none() {
                            let r = Self::next_rand(&mut s);
                            s.hold_left = Some(if (r >> 40) % 3 == 0 { 0 } else { ((r >> 33) % 60) as usize });
                        }
                        if s.hold_left.unwrap() > 0 {
                            s.hold_left = Some(s.hold_left.unwrap() - 1);
                            let r = Self::next_rand(&mut s);
                            others[(r >> 33) as usize % others.len()]
                        } else {
                            s.hold_left = None;
                            holders[0]
                        }
                    } else {
                        s.hold_left = None;
                        let r = Self::next_rand(&mut s);
                        gates[(r >> 33) as usize % gates.len()]
                    }
                }
            };
            s.granted_log.push(pick);
            s.granted = Some(pick);
            self.cv.notify_all();
        }
    }
    pub fn install(self: &Arc<Self>) {
        let cb = self.clone();
        set_callback(Some(Arc::new(move |e| cb.on_event(e))));
    }
    pub fn summary(&self) -> Value {
        let s = self.s.lock().unwrap();
        json!({"steps": s.steps, "granted": s.granted_log, "diverged": s.diverged,
               "verdict": match s.verdict { Verdict::Done => "done", Verdict::Deadlock => "deadlock", Verdict::Livelock => "livelock", Verdict::Running => "running" },
               "workers": s.w.iter().map(|w| format!("{w:?}")).collect::<Vec<_>>()})
    }
}

/// free-running mode: no gates, only worker identity and the lock-protected events are recorded
pub fn install_free_running() {
    set_callback(Some(Arc::new(move |e| match e {
        Event::WorkerStart(i) => {
            WORKER.with(|w| w.set(i as i64 + 1));
            emit(json!({"ev":"wstart"}));
        }
        Event::WorkerExit { panicked, .. } => emit(json!({"ev":"wexit","panicked":panicked})),
        Event::Locked(site, snap) => emit(json!({"ev":"locked","site":site,"ongoing":snap.ongoing,"fringe_len":snap.fringe_len,"best_lb":crate::model::num(snap.best_lb),
            "best_ub":crate::model::num(snap.best_ub),"aborted":snap.aborted,"explored":snap.explored,"first_active":snap.first_active_layer})),
        Event::Workload(what) => emit(json!({"ev":"workload","what":what})),
        Event::BeforeWait => emit(json!({"ev":"wait"})),
        Event::AfterNotifyAll => emit(json!({"ev":"notified"})),
        _ => {}
    })));
}

static GLOBAL: Mutex<Option<Arc<Sched>>> = Mutex::new(None);
pub fn set_global_sched(s: Option<Arc<Sched>>) {
    *GLOBAL.lock().unwrap() = s;
}
/// optional gate before a cache operation (called by the cache recorder)
pub fn cache_gate(site: &'static str) {
    let g = GLOBAL.lock().unwrap().clone();
    if let Some(s) = g {
        s.cache_gate(site)
    }
}
