//! Instance generation shared by the drivers (seeded; DESIGN.md 5.2).
use crate::model::*;
use rand::{rngs::StdRng, Rng, SeedableRng};

/// `fam`: lifted | lifted_nodepth | longarc | knapsack | setpack | setpack_longarc | lifted_pot | knapsack_pot | mixed | allimpacted | longarcs | reconv | potential
pub fn gen_model(fam: &str, seed: u64, maxn: usize, tiny: bool) -> Model {
    let mut r = StdRng::seed_from_u64(seed ^ 0x9e3779b97f4a7c15);
    let pick = match fam {
        "mixed" => ["lifted", "lifted", "lifted_nodepth", "longarc", "knapsack", "setpack", "setpack_longarc", "lifted"][r.gen_range(0..8)],
        "allimpacted" => ["lifted", "lifted", "lifted_nodepth", "knapsack", "setpack", "lifted_wide", "lifted_pot", "knapsack_pot", "lifted_wide", "lifted_wide_pot"][r.gen_range(0..10)],
        // deferred rewards: non-identity relax(), arc costs shifted by potentials
        "potential" => ["lifted_pot", "lifted_wide_pot", "knapsack_pot"][r.gen_range(0..3)],
        "longarcs" => ["longarc", "longarc", "setpack_longarc"][r.gen_range(0..3)],
        // heavy state re-convergence: few base states per layer / few distinct weights, many paths
        "reconv" => ["knapsack_eq", "knapsack_eq", "lifted_narrow", "lifted_narrow_nodepth"][r.gen_range(0..4)],
        f => f,
    };
    let rub = [RubMode::None, RubMode::None, RubMode::Exact, RubMode::Slack, RubMode::Noisy, RubMode::Noisy][r.gen_range(0..6)];
    let dom = [DomMode::None, DomMode::Exact, DomMode::None, DomMode::Keyed][r.gen_range(0..4)];
    // now and then a degenerate size: no variable at all, one, two
    let degenerate = r.gen_range(0..40);
    let n = if degenerate < 3 { degenerate } else if tiny { maxn - r.gen_range(0..3).min(maxn - 2) } else { maxn };
    let b = r.gen_range(3..=5);
    let mm = r.gen_range(2..=3);
    match pick {
        "lifted" => Model::random_lifted(seed, n, b, mm, true, false, rub, dom),
        "lifted_nodepth" => Model::random_lifted(seed, n, b, mm, false, false, RubMode::None, dom),
        "longarc" => Model::random_lifted(seed, n, b, mm, false, true, RubMode::None, dom),
        "knapsack" => Model::random_knapsack(seed, n, rub, dom),
        // wide layers: 7 base states, 4-5 decisions, (mostly) singleton root -- exact layers up to 7 states wide
        "lifted_wide" => Model::random_lifted(seed, n, 7, 4 + (seed % 2) as usize, true, false, rub, dom),
        "lifted_wide_pot" => Model::random_lifted(seed, n, 7, 4 + (seed % 2) as usize, true, false, rub, DomMode::None).with_potentials(seed),
        "lifted_pot" => Model::random_lifted(seed, n, b, mm, true, false, rub, DomMode::None).with_potentials(seed),
        "knapsack_pot" => Model::random_knapsack(seed, n, rub, DomMode::None).with_potentials(seed),
        "knapsack_eq" => Model::random_knapsack_eq(seed, n, rub, dom),
        "lifted_narrow" => Model::random_lifted(seed, n, 2, 3, true, false, rub, dom),
        "lifted_narrow_nodepth" => Model::random_lifted(seed, n, 2, 3, false, false, RubMode::None, dom),
        "setpack" => Model::random_setpack(seed, n.min(7), rub, dom, false),
        "setpack_longarc" => Model::random_setpack(seed, n.min(7), rub, dom, true),
        x => panic!("unknown family {x}"),
    }
}
