//! Instance generation shared by the drivers (seeded; DESIGN.md 5.2).
use crate::model::*;

/// `fam`: lifted | lifted_nodepth | longarc | knapsack | setpack | setpack_longarc | mixed | allimpacted
pub fn gen_model(fam: &str, seed: u64, maxn: usize, tiny: bool) -> Model {
    let k = seed % 97;
    let pick = match fam {
        "mixed" => ["lifted", "lifted", "lifted_nodepth", "longarc", "knapsack", "setpack", "setpack_longarc", "lifted"][(seed % 8) as usize],
        "allimpacted" => ["lifted", "lifted", "lifted_nodepth", "knapsack", "setpack", "lifted"][(seed % 6) as usize],
        "longarcs" => ["longarc", "longarc", "setpack_longarc"][(seed % 3) as usize],
        f => f,
    };
    let rub = [RubMode::None, RubMode::Exact, RubMode::Slack][(k % 3) as usize];
    let dom = [DomMode::None, DomMode::Exact, DomMode::None, DomMode::Keyed][(k / 3 % 4) as usize];
    let n = if tiny { maxn - (k as usize / 12) % 3 } else { maxn };
    let b = 3 + (k as usize / 7) % 3;
    let mm = 2 + (k as usize / 5) % 2;
    match pick {
        "lifted" => Model::random_lifted(seed, n, b, mm, true, false, rub, dom),
        "lifted_nodepth" => Model::random_lifted(seed, n, b, mm, false, false, RubMode::None, dom),
        "longarc" => Model::random_lifted(seed, n, b, mm, false, true, RubMode::None, dom),
        "knapsack" => Model::random_knapsack(seed, n, rub, dom),
        "setpack" => Model::random_setpack(seed, n.min(6), rub, dom, false),
        "setpack_longarc" => Model::random_setpack(seed, n.min(6), rub, dom, true),
        x => panic!("unknown family {x}"),
    }
}
