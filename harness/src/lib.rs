pub mod model;
pub mod rec;
