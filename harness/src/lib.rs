pub mod model;
pub mod rec;
pub mod gen;
pub mod viz;
pub mod sched;
