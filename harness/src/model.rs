//! Instance families of DESIGN.md §5.2. The same definitions exist in TLA+ (spec/DPModel.tla);
//! this side only has to *be* a DP model for the library and to serialise itself for TLC.
//! Nothing here judges the library: verdicts are TLC's.
use ddo::*;
use rand::{rngs::StdRng, Rng, SeedableRng};
use serde_json::{json, Value};
use std::collections::HashMap;
use std::fmt;
use std::sync::{Arc, Mutex};

/// `d` = depth embedded in the state (-1 when the state type does not embed it);
/// `x` = bit set of base states / remaining vertices, or remaining capacity (knapsack).
#[derive(Clone, PartialEq, Eq, Hash, PartialOrd, Ord)]
pub struct St {
    pub d: i32,
    pub x: u32,
}
impl fmt::Debug for St {
    // brace-free so that DOT labels tokenise unambiguously
    fn fmt(&self, f: &mut fmt::Formatter<'_>) -> fmt::Result {
        write!(f, "d{}x{}", self.d, self.x)
    }
}

#[derive(Clone, Copy, Debug, PartialEq, Eq)]
pub enum Family {
    Lifted,
    Knapsack,
    SetPack,
}
#[derive(Clone, Copy, Debug, PartialEq, Eq)]
pub enum RubMode {
    None,
    Exact,
    Slack,
    /// exact value-to-go plus a state-dependent slack in 0..=slack (a bound that is not monotone in the value of the node)
    Noisy,
}
#[derive(Clone, Copy, Debug, PartialEq, Eq)]
pub enum DomMode {
    None,
    Exact,
    /// admissible but weaker: only states with the same parity of cardinality are compared
    Keyed,
}

pub struct Model {
    pub family: Family,
    pub n: usize,
    pub b: usize,
    pub m: usize,
    /// lifted: arcs[i][x][a] = (target, cost)
    pub arcs: Vec<Vec<Vec<Option<(usize, isize)>>>>,
    pub root: u32,
    pub v0: isize,
    pub with_depth: bool,
    pub long_arcs: bool,
    pub rub: RubMode,
    pub slack: isize,
    pub dom: DomMode,
    /// knapsack
    pub profit: Vec<isize>,
    pub weight: Vec<usize>,
    /// setpack
    pub wv: Vec<isize>,
    pub adj: Vec<u32>,
    /// potentials (deferred rewards): pot[d][e]; empty = none. With them every arc cost is shifted by phi(target) - phi(source),
    /// the initial value by phi(root), terminal potentials are 0 (so complete solutions keep their value), and the relaxation is
    /// no longer the identity: relax(.., dst, merged, .., cost) = cost + phi(merged) - phi(dst)
    pub pot: Vec<Vec<isize>>,
    memo: Mutex<HashMap<(usize, u32), Option<isize>>>,
}

fn bits(x: u32) -> Vec<usize> {
    (0..32).filter(|i| x >> i & 1 == 1).collect()
}

impl Model {
    fn blank(family: Family) -> Self {
        Model {
            family,
            n: 0,
            b: 0,
            m: 0,
            arcs: vec![],
            root: 1,
            v0: 0,
            with_depth: true,
            long_arcs: false,
            rub: RubMode::None,
            slack: 0,
            dom: DomMode::None,
            profit: vec![],
            weight: vec![],
            wv: vec![],
            adj: vec![],
            pot: vec![],
            memo: Default::default(),
        }
    }
    pub fn phi(&self, d: usize, x: u32) -> isize {
        if self.pot.is_empty() {
            return 0;
        }
        match self.family {
            Family::Lifted => bits(x).iter().map(|e| self.pot[d][*e]).sum(),
            Family::Knapsack => self.pot[d][(x % 3) as usize],
            Family::SetPack => 0,
        }
    }
    /// turns a depth-aware lifted / knapsack model without dominance rule into its "deferred rewards" variant
    pub fn with_potentials(mut self, seed: u64) -> Self {
        assert!(self.with_depth && !self.long_arcs && self.family != Family::SetPack);
        let mut r = StdRng::seed_from_u64(seed ^ 0x907e_0001);
        let w = if self.family == Family::Lifted { self.b } else { 3 };
        self.dom = DomMode::None;
        self.pot = (0..=self.n).map(|d| (0..w).map(|_| if d == self.n { 0 } else { r.gen_range(-8..=8) }).collect()).collect();
        self.v0 += self.phi(0, self.root);
        self.memo = Default::default();
        self
    }
    /// random lifted table DP. `dense`: probability that an arc exists.
    #[allow(clippy::too_many_arguments)]
    pub fn random_lifted(seed: u64, n: usize, b: usize, m: usize, with_depth: bool, long_arcs: bool, rub: RubMode, dom: DomMode) -> Self {
        let mut r = StdRng::seed_from_u64(seed ^ 0x5eed_0001);
        let mut me = Self::blank(Family::Lifted);
        let negative = r.gen_bool(0.5);
        let dense = [0.6, 0.8, 0.95][r.gen_range(0..3)];
        let ties = r.gen_bool(0.3);
        for _ in 0..n {
            let mut l = vec![];
            for x in 0..b {
                let mut ds = vec![];
                let neutral = long_arcs && r.gen_bool(0.45);
                for a in 0..m {
                    if neutral {
                        ds.push(if a == 0 { Some((x, 0)) } else { None });
                    } else if r.gen_bool(dense) {
                        let c = if ties { r.gen_range(0..2) } else if negative { r.gen_range(-3..5) } else { r.gen_range(0..6) };
                        ds.push(Some((r.gen_range(0..b), c)))
                    } else {
                        ds.push(None)
                    }
                }
                l.push(ds);
            }
            me.arcs.push(l);
        }
        me.n = n;
        me.b = b;
        me.m = m;
        me.root = if r.gen_bool(0.7) { 1 } else { r.gen_range(1..(1u32 << b)) };
        me.v0 = r.gen_range(-2..3);
        me.with_depth = with_depth;
        me.long_arcs = long_arcs;
        me.rub = if with_depth { rub } else { RubMode::None };
        me.slack = if rub == RubMode::Noisy { r.gen_range(3..10) } else { r.gen_range(0..4) };
        me.dom = dom;
        me
    }
    pub fn random_knapsack(seed: u64, n: usize, rub: RubMode, dom: DomMode) -> Self {
        let mut r = StdRng::seed_from_u64(seed ^ 0x5eed_0002);
        let mut me = Self::blank(Family::Knapsack);
        me.n = n;
        me.m = 2;
        // two scales: tiny (capacity <= 9) and larger (capacity <= 26, as in the shipped knapsack example) where deeper diagrams get squashed
        let big = n >= 7 || r.gen_bool(0.25);
        me.profit = (0..n).map(|_| r.gen_range(0..if big { 21 } else { 7 })).collect();
        me.weight = (0..n).map(|_| r.gen_range(1..if big { 13 } else { 5 })).collect();
        let tot: usize = me.weight.iter().sum();
        me.root = r.gen_range(if big { 8 } else { 0 }..=tot.min(if big { 26 } else { 9 }).max(8)) as u32;
        me.b = me.root as usize + 1;
        me.v0 = r.gen_range(0..2);
        me.rub = rub;
        me.slack = if rub == RubMode::Noisy { r.gen_range(3..10) } else { r.gen_range(0..3) };
        me.dom = dom;
        me
    }
    /// knapsack with very few distinct weights: the same capacity is reached along many paths
    pub fn random_knapsack_eq(seed: u64, n: usize, rub: RubMode, dom: DomMode) -> Self {
        let mut r = StdRng::seed_from_u64(seed ^ 0x5eed_0004);
        let mut me = Self::blank(Family::Knapsack);
        me.n = n;
        me.m = 2;
        let ws = [[1usize, 4], [2, 2], [1, 2], [3, 4]][r.gen_range(0..4)];
        me.profit = (0..n).map(|_| r.gen_range(1..9)).collect();
        me.weight = (0..n).map(|_| ws[r.gen_range(0..2)]).collect();
        let tot: usize = me.weight.iter().sum();
        me.root = r.gen_range(tot / 3..=(2 * tot / 3).max(tot / 3 + 1)) as u32;
        me.b = me.root as usize + 1;
        me.v0 = 0;
        me.rub = rub;
        me.slack = if rub == RubMode::Noisy { r.gen_range(3..10) } else { r.gen_range(0..3) };
        me.dom = dom;
        me
    }
    pub fn random_setpack(seed: u64, n: usize, rub: RubMode, dom: DomMode, long_arcs: bool) -> Self {
        let mut r = StdRng::seed_from_u64(seed ^ 0x5eed_0003);
        let mut me = Self::blank(Family::SetPack);
        me.n = n;
        me.b = n;
        me.m = 2;
        me.with_depth = false;
        me.long_arcs = long_arcs;
        let neg = r.gen_bool(0.3);
        me.wv = (0..n).map(|_| if neg { r.gen_range(-2..6) } else { r.gen_range(0..6) }).collect();
        me.adj = vec![0; n];
        let p = [0.2, 0.4, 0.6][r.gen_range(0..3)];
        for u in 0..n {
            for v in (u + 1)..n {
                if r.gen_bool(p) {
                    me.adj[u] |= 1 << v;
                    me.adj[v] |= 1 << u;
                }
            }
        }
        me.root = (1u32 << n) - 1;
        me.v0 = 0;
        me.rub = rub;
        me.slack = if rub == RubMode::Noisy { r.gen_range(3..10) } else { r.gen_range(0..3) };
        me.dom = dom;
        me
    }

    pub fn st(&self, depth: usize, x: u32) -> St {
        St { d: if self.with_depth { depth as i32 } else { -1 }, x }
    }
    // ---- semantics (var, state bits, value)
    pub fn domain(&self, var: usize, x: u32) -> Vec<usize> {
        match self.family {
            Family::Lifted => (0..self.m).filter(|&a| bits(x).iter().any(|&e| self.arcs[var][e][a].is_some())).collect(),
            Family::Knapsack => {
                if x as usize >= self.weight[var] {
                    vec![1, 0]
                } else {
                    vec![0]
                }
            }
            Family::SetPack => {
                if x >> var & 1 == 1 {
                    vec![1, 0]
                } else {
                    vec![0]
                }
            }
        }
    }
    pub fn tr(&self, var: usize, x: u32, a: usize) -> (u32, isize) {
        let (t, c) = self.tr0(var, x, a);
        if self.pot.is_empty() || c == isize::MIN {
            (t, c)
        } else {
            (t, c + self.phi(var + 1, t) - self.phi(var, x))
        }
    }
    fn tr0(&self, var: usize, x: u32, a: usize) -> (u32, isize) {
        match self.family {
            Family::Lifted => {
                let mut t = 0u32;
                let mut c = isize::MIN;
                for e in bits(x) {
                    if let Some((y, k)) = self.arcs[var][e][a] {
                        t |= 1 << y;
                        c = c.max(k);
                    }
                }
                (t, c)
            }
            Family::Knapsack => {
                if a == 1 {
                    (x - self.weight[var] as u32, self.profit[var])
                } else {
                    (x, 0)
                }
            }
            Family::SetPack => {
                if a == 1 {
                    (x & !(self.adj[var] | 1 << var), self.wv[var])
                } else {
                    (x & !(1 << var), 0)
                }
            }
        }
    }
    /// exact value-to-go of a sub-problem (None = no completion)
    pub fn hstar(&self, depth: usize, x: u32) -> Option<isize> {
        match self.family {
            Family::SetPack => {
                if x == 0 {
                    return Some(0);
                }
                if let Some(v) = self.memo.lock().unwrap().get(&(0, x)) {
                    return *v;
                }
                let v = x.trailing_zeros() as usize;
                let a = self.hstar(0, x & !(1 << v)).unwrap();
                let b = self.wv[v] + self.hstar(0, x & !(self.adj[v] | 1 << v)).unwrap();
                let r = Some(a.max(b));
                self.memo.lock().unwrap().insert((0, x), r);
                r
            }
            _ => {
                if depth == self.n {
                    return Some(0);
                }
                if let Some(v) = self.memo.lock().unwrap().get(&(depth, x)) {
                    return *v;
                }
                let mut best = None;
                for a in self.domain(depth, x) {
                    let (t, c) = self.tr(depth, x, a);
                    if let Some(h) = self.hstar(depth + 1, t) {
                        let v = c + h;
                        if best.map_or(true, |b| v > b) {
                            best = Some(v);
                        }
                    }
                }
                self.memo.lock().unwrap().insert((depth, x), best);
                best
            }
        }
    }
    pub fn opt(&self) -> Option<isize> {
        self.hstar(0, self.root).map(|h| h + self.v0)
    }
    /// some optimal decision sequence from the root, and sub-optimal feasible ones (for warm starts)
    pub fn witness(&self, prefer_worst: bool) -> Option<(isize, Vec<Decision>)> {
        let mut x = self.root;
        let mut v = self.v0;
        let mut sol = vec![];
        self.hstar(0, x)?;
        for var in 0..self.n {
            let mut cands: Vec<(isize, usize)> = vec![];
            for a in self.domain(var, x) {
                let (t, c) = self.tr(var, x, a);
                let h = if self.family == Family::SetPack { self.hstar(0, t) } else { self.hstar(var + 1, t) };
                if let Some(h) = h {
                    cands.push((c + h, a));
                }
            }
            cands.sort();
            let (_, a) = if prefer_worst { cands[0] } else { *cands.last().unwrap() };
            let (t, c) = self.tr(var, x, a);
            x = t;
            v += c;
            sol.push(Decision { variable: Variable(var), value: a as isize });
        }
        Some((v, sol))
    }
    fn neutral(&self, var: usize, e: usize) -> bool {
        (0..self.m).all(|a| match self.arcs[var][e][a] {
            Some((y, c)) => a == 0 && y == e && c == 0,
            None => a != 0,
        })
    }
    pub fn to_json(&self) -> Value {
        let fam = match self.family {
            Family::Lifted => "lifted",
            Family::Knapsack => "knapsack",
            Family::SetPack => "setpack",
        };
        // arcs as [target (1-based, 0 = none), cost]
        let arcs: Vec<Vec<Vec<Vec<i64>>>> = self
            .arcs
            .iter()
            .map(|l| l.iter().map(|ds| ds.iter().map(|d| match d { Some((y, c)) => vec![*y as i64 + 1, *c as i64], None => vec![0, 0] }).collect()).collect())
            .collect();
        json!({
            "family": fam, "n": self.n, "b": self.b, "m": self.m, "arcs": arcs,
            "root": self.xjson(self.root), "v0": self.v0,
            "with_depth": self.with_depth, "long_arcs": self.long_arcs,
            "rub": match self.rub { RubMode::None => "none", RubMode::Exact => "exact", RubMode::Slack => "slack", RubMode::Noisy => "noisy" },
            "slack": self.slack,
            "dom": match self.dom { DomMode::None => "none", DomMode::Exact => "exact", DomMode::Keyed => "keyed" },
            "profit": self.profit, "weight": self.weight,
            "wv": self.wv, "pot": self.pot,
            "adj": self.adj.iter().map(|a| bits(*a).iter().map(|e| e + 1).collect::<Vec<_>>()).collect::<Vec<_>>(),
        })
    }
    pub fn from_json(v: &Value) -> Model {
        let fam = match v["family"].as_str().unwrap() {
            "lifted" => Family::Lifted,
            "knapsack" => Family::Knapsack,
            _ => Family::SetPack,
        };
        let mut me = Self::blank(fam);
        let u = |k: &str| v[k].as_u64().unwrap_or(0) as usize;
        me.n = u("n");
        me.b = u("b");
        me.m = u("m");
        me.arcs = v["arcs"].as_array().map(|ls| ls.iter().map(|l| l.as_array().unwrap().iter().map(|ds| ds.as_array().unwrap().iter().map(|d| {
            let t = d[0].as_i64().unwrap();
            if t == 0 { None } else { Some((t as usize - 1, d[1].as_i64().unwrap() as isize)) }
        }).collect()).collect()).collect()).unwrap_or_default();
        let root: Vec<u64> = v["root"].as_array().unwrap().iter().map(|x| x.as_u64().unwrap()).collect();
        me.root = if fam == Family::Knapsack { root[0] as u32 } else { root.iter().fold(0u32, |a, e| a | 1 << (e - 1)) };
        me.v0 = v["v0"].as_i64().unwrap() as isize;
        me.with_depth = v["with_depth"].as_bool().unwrap();
        me.long_arcs = v["long_arcs"].as_bool().unwrap();
        me.rub = match v["rub"].as_str().unwrap() { "none" => RubMode::None, "exact" => RubMode::Exact, "noisy" => RubMode::Noisy, _ => RubMode::Slack };
        me.slack = v["slack"].as_i64().unwrap() as isize;
        me.dom = match v["dom"].as_str().unwrap() { "none" => DomMode::None, "exact" => DomMode::Exact, _ => DomMode::Keyed };
        me.profit = v["profit"].as_array().map(|a| a.iter().map(|x| x.as_i64().unwrap() as isize).collect()).unwrap_or_default();
        me.weight = v["weight"].as_array().map(|a| a.iter().map(|x| x.as_u64().unwrap() as usize).collect()).unwrap_or_default();
        me.wv = v["wv"].as_array().map(|a| a.iter().map(|x| x.as_i64().unwrap() as isize).collect()).unwrap_or_default();
        me.pot = v["pot"].as_array().map(|a| a.iter().map(|r| r.as_array().unwrap().iter().map(|x| x.as_i64().unwrap() as isize).collect()).collect()).unwrap_or_default();
        me.adj = v["adj"].as_array().map(|a| a.iter().map(|x| x.as_array().unwrap().iter().fold(0u32, |acc, e| acc | 1 << (e.as_u64().unwrap() - 1))).collect()).unwrap_or_default();
        me
    }
    /// the `x` component as TLC sees it: sorted 1-based members, or <<capacity>>
    pub fn xjson(&self, x: u32) -> Value {
        match self.family {
            Family::Knapsack => json!([x]),
            _ => json!(bits(x).iter().map(|e| e + 1).collect::<Vec<_>>()),
        }
    }
    pub fn sjson(&self, s: &St) -> Value {
        json!({"d": s.d, "x": self.xjson(s.x)})
    }
    /// pre-filter of the sweep (selection only): does the reported solution replay to the reported value ?  (variables in index order, an
    /// undecided variable takes the default 0, as in DPModel!FeasibleSolution)
    pub fn solution_consistent(&self, ret: &Value) -> bool {
            let m = self;
        if !ret["sol"]["some"].as_bool().unwrap_or(false) {
            return !ret["has_value"].as_bool().unwrap_or(false);
        }
        let decs: Vec<(usize, usize)> = ret["sol"]["decs"].as_array().unwrap().iter().map(|d| (d[0].as_u64().unwrap() as usize, d[1].as_i64().unwrap().max(0) as usize)).collect();
        let (mut x, mut v) = (m.root, m.v0);
        for var in 0..m.n {
            let a = decs.iter().find(|d| d.0 == var).map(|d| d.1).unwrap_or(0);
            if !m.domain(var, x).contains(&a) {
                return false;
            }
            let (t, c) = m.tr(var, x, a);
            x = t;
            v += c;
        }
        Some(v as i64) == ret["best_value"].as_i64() && decs.len() <= m.n
    }
    pub fn djson(d: &Decision) -> Value {
        json!([d.variable.0, d.value])
    }
    pub fn spjson(&self, sp: &SubProblem<St>) -> Value {
        json!({"st": self.sjson(&sp.state), "depth": sp.depth, "value": num(sp.value), "ub": num(sp.ub),
               "path": sp.path.iter().map(Self::djson).collect::<Vec<_>>()})
    }
}

/// isize::MIN / MAX are tokens for TLC (32-bit integers): far outside every real value
pub const NEG_INF: i64 = -1_000_000;
pub const POS_INF: i64 = 1_000_000;
pub fn num(v: isize) -> i64 {
    if v <= isize::MIN / 2 {
        NEG_INF
    } else if v >= isize::MAX / 2 {
        POS_INF
    } else {
        v as i64
    }
}
pub fn onum(v: Option<isize>) -> Value {
    match v {
        Some(v) => json!(num(v)),
        None => json!(NEG_INF),
    }
}

impl Problem for Model {
    type State = St;
    fn nb_variables(&self) -> usize {
        self.n
    }
    fn initial_state(&self) -> St {
        self.st(0, self.root)
    }
    fn initial_value(&self) -> isize {
        self.v0
    }
    fn transition(&self, s: &St, d: Decision) -> St {
        let var = d.variable.0;
        let (t, _) = self.tr(var, s.x, d.value as usize);
        St { d: if self.with_depth { s.d + 1 } else { -1 }, x: t }
    }
    fn transition_cost(&self, s: &St, _t: &St, d: Decision) -> isize {
        self.tr(d.variable.0, s.x, d.value as usize).1
    }
    fn next_variable(&self, depth: usize, it: &mut dyn Iterator<Item = &St>) -> Option<Variable> {
        match self.family {
            Family::SetPack => {
                // dynamic order: the vertex that belongs to most states of the layer (ties: smallest index)
                let mut cnt = vec![0usize; self.n];
                for s in it {
                    for e in bits(s.x) {
                        cnt[e] += 1;
                    }
                }
                let best = (0..self.n).filter(|&v| cnt[v] > 0).max_by_key(|&v| (cnt[v], std::cmp::Reverse(v)));
                best.map(Variable)
            }
            _ => {
                if depth < self.n {
                    Some(Variable(depth))
                } else {
                    None
                }
            }
        }
    }
    fn for_each_in_domain(&self, var: Variable, s: &St, f: &mut dyn DecisionCallback) {
        for a in self.domain(var.0, s.x) {
            f.apply(Decision { variable: var, value: a as isize });
        }
    }
    fn is_impacted_by(&self, var: Variable, s: &St) -> bool {
        if !self.long_arcs {
            return true;
        }
        match self.family {
            Family::Lifted => !bits(s.x).iter().all(|&e| self.neutral(var.0, e)),
            Family::SetPack => s.x >> var.0 & 1 == 1,
            Family::Knapsack => true,
        }
    }
}
impl Relaxation for Model {
    type State = St;
    fn merge(&self, it: &mut dyn Iterator<Item = &St>) -> St {
        let v: Vec<&St> = it.collect();
        match self.family {
            Family::Knapsack => St { d: v[0].d, x: v.iter().map(|s| s.x).max().unwrap() },
            _ => St { d: v[0].d, x: v.iter().fold(0, |a, s| a | s.x) },
        }
    }
    fn relax(&self, _a: &St, dst: &St, merged: &St, _d: Decision, c: isize) -> isize {
        if self.pot.is_empty() {
            c
        } else {
            c + self.phi(merged.d as usize, merged.x) - self.phi(dst.d as usize, dst.x)
        }
    }
    fn fast_upper_bound(&self, s: &St) -> isize {
        if self.rub == RubMode::None {
            return isize::MAX;
        }
        let h = match self.family {
            Family::SetPack => self.hstar(0, s.x),
            _ => {
                if s.d < 0 {
                    return isize::MAX;
                }
                self.hstar(s.d as usize, s.x)
            }
        };
        // a state without completion gets a very low (still admissible) bound
        let h = h.unwrap_or(-1000);
        match self.rub {
            RubMode::Exact => h,
            // the noise depends on the state only: (7 depth + 13 code(state)) mod (slack + 1), code = bit mask / capacity
            RubMode::Noisy => h + ((7 * (if self.with_depth { s.d.max(0) } else { 0 }) as isize + 13 * s.x as isize) % (self.slack + 1)),
            _ => h + self.slack,
        }
    }
}
impl StateRanking for Model {
    type State = St;
    fn compare(&self, a: &St, b: &St) -> std::cmp::Ordering {
        match self.family {
            Family::Knapsack => a.x.cmp(&b.x),
            _ => a.x.count_ones().cmp(&b.x.count_ones()).then(a.x.cmp(&b.x)),
        }
    }
}
/// the dominance rule of the model (only handed to the library when `dom != None`)
pub struct ModelDominance<'a>(pub &'a Model);
impl Dominance for ModelDominance<'_> {
    type State = St;
    type Key = u32;
    fn get_key(&self, s: Arc<St>) -> Option<u32> {
        match self.0.dom {
            // states whose cardinality is a multiple of 3 take no part in the relation (no key)
            DomMode::Keyed => if s.x.count_ones() % 3 == 0 { None } else { Some(s.x.count_ones() % 2) },
            _ => Some(0),
        }
    }
    fn nb_dimensions(&self, _: &St) -> usize {
        match self.0.family {
            Family::Knapsack => 1,
            _ => self.0.b,
        }
    }
    // order-preserving images of the abstract coordinates (capacity / membership bit) that reach the ends of the isize range:
    // a dominance relation may legitimately use isize::MAX / isize::MIN as "unbounded" (differences of coordinates overflow)
    fn get_coordinate(&self, s: &St, i: usize) -> isize {
        match self.0.family {
            // strictly increasing in the capacity, whatever its size: 0 -> isize::MIN, c >= 1 -> isize::MAX - 1_000_000 + c
            Family::Knapsack => if s.x == 0 { isize::MIN } else { isize::MAX - 1_000_000 + s.x as isize },
            _ => if s.x >> i & 1 == 1 { isize::MAX } else { isize::MIN },
        }
    }
    fn use_value(&self) -> bool {
        true
    }
}
