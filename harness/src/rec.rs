//! Recording wrappers (DESIGN.md §4.1): every trait object the library accepts is wrapped so that
//! each call becomes one NDJSON event. Events are appended to one process-global log under one
//! mutex; the sequence number is the position in that log (never a wall-clock time).
use crate::model::*;
use ddo::*;
use serde_json::{json, Value};
use std::cell::Cell;
use std::io::Write;
use std::sync::atomic::{AtomicBool, AtomicUsize, Ordering::SeqCst};
use std::sync::{Arc, Mutex};

pub static LOG: Mutex<Vec<Value>> = Mutex::new(Vec::new());
/// callback-level recording is voluminous: only on when a driver asks for it
pub static CALLBACKS: AtomicBool = AtomicBool::new(false);
thread_local! { pub static WORKER: Cell<i64> = const { Cell::new(0) }; }

pub fn worker() -> i64 {
    WORKER.with(|w| w.get())
}
pub fn emit(mut v: Value) {
    let mut log = LOG.lock().unwrap();
    v["w"] = json!(worker());
    log.push(v);
}
pub fn take_log() -> Vec<Value> {
    std::mem::take(&mut *LOG.lock().unwrap())
}
pub fn write_events(out: &mut dyn Write, evs: &[Value]) {
    for e in evs {
        writeln!(out, "{}", e).unwrap();
    }
}

// ------------------------------------------------------------------ Problem / Relaxation / Ranking
pub struct RecModel<'a>(pub &'a Model);
impl Problem for RecModel<'_> {
    type State = St;
    fn nb_variables(&self) -> usize {
        self.0.nb_variables()
    }
    fn initial_state(&self) -> St {
        self.0.initial_state()
    }
    fn initial_value(&self) -> isize {
        self.0.initial_value()
    }
    fn transition(&self, s: &St, d: Decision) -> St {
        let r = self.0.transition(s, d);
        if CALLBACKS.load(SeqCst) {
            emit(json!({"ev":"cb","f":"transition","src":self.0.sjson(s),"dec":Model::djson(&d),"ret":self.0.sjson(&r)}));
        }
        r
    }
    fn transition_cost(&self, s: &St, t: &St, d: Decision) -> isize {
        let r = self.0.transition_cost(s, t, d);
        if CALLBACKS.load(SeqCst) {
            emit(json!({"ev":"cb","f":"cost","src":self.0.sjson(s),"dst":self.0.sjson(t),"dec":Model::djson(&d),"ret":r}));
        }
        r
    }
    fn next_variable(&self, depth: usize, it: &mut dyn Iterator<Item = &St>) -> Option<Variable> {
        let v: Vec<St> = it.cloned().collect();
        let r = self.0.next_variable(depth, &mut v.iter());
        if CALLBACKS.load(SeqCst) {
            let mut sts: Vec<&St> = v.iter().collect();
            sts.sort();
            emit(json!({"ev":"cb","f":"next_variable","depth":depth,"states":sts.iter().map(|s| self.0.sjson(s)).collect::<Vec<_>>(),
                        "ret": r.map(|v| v.0 as i64).unwrap_or(-1)}));
        }
        r
    }
    fn for_each_in_domain(&self, var: Variable, s: &St, f: &mut dyn DecisionCallback) {
        if CALLBACKS.load(SeqCst) {
            emit(json!({"ev":"cb","f":"domain","var":var.0,"st":self.0.sjson(s)}));
        }
        self.0.for_each_in_domain(var, s, f)
    }
    fn is_impacted_by(&self, var: Variable, s: &St) -> bool {
        self.0.is_impacted_by(var, s)
    }
}
impl Relaxation for RecModel<'_> {
    type State = St;
    fn merge(&self, it: &mut dyn Iterator<Item = &St>) -> St {
        let v: Vec<St> = it.cloned().collect();
        let r = self.0.merge(&mut v.iter());
        if CALLBACKS.load(SeqCst) {
            emit(json!({"ev":"cb","f":"merge","states":v.iter().map(|s| self.0.sjson(s)).collect::<Vec<_>>(),"ret":self.0.sjson(&r)}));
        }
        r
    }
    fn relax(&self, a: &St, b: &St, m: &St, d: Decision, c: isize) -> isize {
        let r = self.0.relax(a, b, m, d, c);
        if CALLBACKS.load(SeqCst) {
            emit(json!({"ev":"cb","f":"relax","src":self.0.sjson(a),"dst":self.0.sjson(b),"merged":self.0.sjson(m),"dec":Model::djson(&d),"cost":c,"ret":r}));
        }
        r
    }
    fn fast_upper_bound(&self, s: &St) -> isize {
        self.0.fast_upper_bound(s)
    }
}
impl StateRanking for RecModel<'_> {
    type State = St;
    fn compare(&self, a: &St, b: &St) -> std::cmp::Ordering {
        StateRanking::compare(self.0, a, b)
    }
}

// ------------------------------------------------------------------ Cutoff
/// answers `stop` from poll number `at` on (1-based); `at == 0` = never. Also stops when the flag is raised.
pub struct CountingCutoff {
    pub polls: AtomicUsize,
    pub at: usize,
    pub flag: Arc<AtomicBool>,
    pub log: bool,
    /// safety net against non-termination of the code under test: stop after this many polls (0 = none) and say so
    pub watchdog: usize,
    pub dog: AtomicBool,
    /// the criterion no longer asks to stop (the budget was renewed): the watchdog stays armed
    pub released: AtomicBool,
}
impl CountingCutoff {
    pub fn new(at: usize) -> Self {
        CountingCutoff { polls: AtomicUsize::new(0), at, flag: Arc::new(AtomicBool::new(false)), log: false, watchdog: 0, dog: AtomicBool::new(false), released: AtomicBool::new(false) }
    }
}
impl Cutoff for CountingCutoff {
    fn must_stop(&self) -> bool {
        let k = self.polls.fetch_add(1, SeqCst) + 1;
        if self.watchdog != 0 && k > self.watchdog {
            self.dog.store(true, SeqCst);
            return true;
        }
        let stop = !self.released.load(SeqCst) && ((self.at != 0 && k >= self.at) || self.flag.load(SeqCst));
        if self.log {
            emit(json!({"ev":"poll","k":k,"stop":stop}));
        }
        stop
    }
}

// ------------------------------------------------------------------ Fringe
pub struct RecFringe<'a, F: Fringe<State = St>> {
    pub inner: F,
    pub m: &'a Model,
}
impl<F: Fringe<State = St>> Fringe for RecFringe<'_, F> {
    type State = St;
    fn push(&mut self, n: SubProblem<St>) {
        let j = self.m.spjson(&n);
        self.inner.push(n);
        emit(json!({"ev":"push","node":j,"len":self.inner.len()}));
    }
    fn pop(&mut self) -> Option<SubProblem<St>> {
        let r = self.inner.pop();
        match &r {
            Some(n) => emit(json!({"ev":"pop","node":self.m.spjson(n),"len":self.inner.len()})),
            None => emit(json!({"ev":"pop_none","len":self.inner.len()})),
        }
        r
    }
    fn clear(&mut self) {
        self.inner.clear();
        emit(json!({"ev":"fclear","len":self.inner.len()}));
    }
    fn len(&self) -> usize {
        self.inner.len()
    }
}

// ------------------------------------------------------------------ Cache
/// the model is needed to serialise states: the cache type must be `Default`, so it is found in a global
pub static CUR_MODEL: Mutex<Option<usize>> = Mutex::new(None); // address of the current &Model
pub fn set_model(m: &Model) {
    *CUR_MODEL.lock().unwrap() = Some(m as *const Model as usize);
}
fn cur_model() -> &'static Model {
    let p = CUR_MODEL.lock().unwrap().expect("model not set");
    unsafe { &*(p as *const Model) }
}
/// fault injection used by tools/selftest only (demonstrates that the binding bites): never set by a check
pub static CACHE_FAULT: AtomicBool = AtomicBool::new(false);

pub struct RecCache<C: Cache<State = St> + Default> {
    pub inner: C,
}
impl<C: Cache<State = St> + Default> Default for RecCache<C> {
    fn default() -> Self {
        RecCache { inner: C::default() }
    }
}
fn thjson(t: Option<Threshold>) -> Value {
    match t {
        Some(t) => json!([num(t.value), t.explored]),
        None => json!([NEG_INF - 1, false]),
    }
}
impl<C: Cache<State = St> + Default> Cache for RecCache<C> {
    type State = St;
    fn initialize(&mut self, p: &dyn Problem<State = St>) {
        self.inner.initialize(p);
        emit(json!({"ev":"cinit"}));
    }
    fn get_threshold(&self, s: &St, d: usize) -> Option<Threshold> {
        crate::sched::cache_gate("cget");
        let r = self.inner.get_threshold(s, d);
        emit(json!({"ev":"cget","st":cur_model().sjson(s),"depth":d,"ret":thjson(r)}));
        r
    }
    fn update_threshold(&self, s: Arc<St>, d: usize, v: isize, e: bool) {
        crate::sched::cache_gate("cupd");
        let e = if CACHE_FAULT.load(SeqCst) { true } else { e };
        emit(json!({"ev":"cupd","st":cur_model().sjson(&s),"depth":d,"value":num(v),"explored":e}));
        self.inner.update_threshold(s, d, v, e)
    }
    fn clear_layer(&self, d: usize) {
        emit(json!({"ev":"cclear_layer","depth":d}));
        self.inner.clear_layer(d)
    }
    fn clear(&self) {
        emit(json!({"ev":"cclear"}));
        self.inner.clear()
    }
    // must_explore: the trait's default method (it is part of what is verified); it calls get_threshold above
}

// ------------------------------------------------------------------ Dominance
pub struct RecDominance<'a, D: DominanceChecker<State = St>> {
    pub inner: D,
    pub m: &'a Model,
}
impl<D: DominanceChecker<State = St>> DominanceChecker for RecDominance<'_, D> {
    type State = St;
    fn clear_layer(&self, depth: usize) {
        emit(json!({"ev":"dclear_layer","depth":depth}));
        self.inner.clear_layer(depth)
    }
    fn is_dominated_or_insert(&self, s: Arc<St>, depth: usize, value: isize) -> DominanceCheckResult {
        let r = self.inner.is_dominated_or_insert(s.clone(), depth, value);
        emit(json!({"ev":"dquery","st":self.m.sjson(&s),"depth":depth,"value":num(value),"dominated":r.dominated,
                    "threshold": match r.threshold { Some(t) => json!(num(t)), None => json!(NEG_INF - 1) }}));
        r
    }
    fn cmp(&self, a: &St, va: isize, b: &St, vb: isize) -> std::cmp::Ordering {
        self.inner.cmp(a, va, b, vb)
    }
}

// ------------------------------------------------------------------ Decision diagram
pub struct RecDD<D: DecisionDiagram<State = St> + Default> {
    pub inner: D,
    /// number of compilations made with this object (history)
    pub uses: usize,
}
impl<D: DecisionDiagram<State = St> + Default> Default for RecDD<D> {
    fn default() -> Self {
        RecDD { inner: D::default(), uses: 0 }
    }
}
pub fn ctype(t: CompilationType) -> &'static str {
    match t {
        CompilationType::Exact => "exact",
        CompilationType::Restricted => "restricted",
        CompilationType::Relaxed => "relaxed",
    }
}
fn soljson(s: Option<Solution>) -> Value {
    match s {
        Some(s) => json!({"some": true, "decs": s.iter().map(Model::djson).collect::<Vec<_>>()}),
        None => json!({"some": false, "decs": []}),
    }
}
impl<D: DecisionDiagram<State = St> + Default> DecisionDiagram for RecDD<D> {
    type State = St;
    fn compile(&mut self, input: &CompilationInput<St>) -> Result<Completion, Reason> {
        let m = cur_model();
        self.uses += 1;
        emit(json!({"ev":"compile","type":ctype(input.comp_type),"width":input.max_width,"root":m.spjson(input.residual),
                    "best_lb":num(input.best_lb),"uses":self.uses}));
        let r = self.inner.compile(input);
        match &r {
            Ok(c) => emit(json!({"ev":"compiled","ok":true,"type":ctype(input.comp_type),"exact":c.is_exact,"is_exact":self.inner.is_exact(),
                "cval":onum(c.best_value),"bv":onum(self.inner.best_value()),"bev":onum(self.inner.best_exact_value()),
                "bsol":soljson(self.inner.best_solution()),"besol":soljson(self.inner.best_exact_solution())})),
            Err(_) => emit(json!({"ev":"compiled","ok":false,"type":ctype(input.comp_type)})),
        }
        r
    }
    fn is_exact(&self) -> bool {
        self.inner.is_exact()
    }
    fn best_value(&self) -> Option<isize> {
        self.inner.best_value()
    }
    fn best_solution(&self) -> Option<Solution> {
        self.inner.best_solution()
    }
    fn best_exact_value(&self) -> Option<isize> {
        self.inner.best_exact_value()
    }
    fn best_exact_solution(&self) -> Option<Solution> {
        self.inner.best_exact_solution()
    }
    fn drain_cutset<F>(&mut self, mut f: F)
    where
        F: FnMut(SubProblem<St>),
    {
        let m = cur_model();
        let mut all = vec![];
        self.inner.drain_cutset(|sp| all.push(sp));
        emit(json!({"ev":"cutset","nodes":all.iter().map(|sp| m.spjson(sp)).collect::<Vec<_>>()}));
        for sp in all {
            f(sp)
        }
    }
}
