------------------------------- MODULE SeqBnB -------------------------------
(* The sequential branch-and-bound loop of solver/sequential.rs as pure operators over a       *)
(* solver-state record, shared by the generative model (MC_SeqBnB, compile outcomes drawn from *)
(* the DD contract over an abstract search tree) and by the trace specification (TraceSeq,     *)
(* outcomes taken from the log).  One operator per step of maximize / get_workload /           *)
(* process_one_node / maybe_update_best / enqueue_cutset / abort_search.                       *)
(*                                                                                             *)
(* S = [fringe, table, bestLb, hasSol, bestUb, abort, open (per-depth counters), first]        *)
EXTENDS Fringe, ThresholdCache, DPModel

SInit(kind, root, n) ==
  [fringe |-> FPush(kind, EmptyBag, Item(root)), table |-> CEmpty, bestLb |-> NegInf, hasSol |-> FALSE, bestUb |-> PosInf,
   abort |-> FALSE, open |-> [d \in 0..n |-> IF d = 0 THEN 1 ELSE 0], first |-> 0]
\* set_primal: replaces the incumbent only when strictly greater
SPrimal(S, v) == IF v > S.bestLb THEN [S EXCEPT !.bestLb = v, !.hasSol = TRUE] ELSE S
\* get_workload, part 1: layers above the first active one are dropped from the cache
RECURSIVE SClean(_, _)
SClean(S, n) == IF S.first < n /\ S.open[S.first] = 0
                THEN SClean([S EXCEPT !.table = CClearLayer(S.table, S.first), !.first = S.first + 1], n)
                ELSE S
SComplete(S) == [S EXCEPT !.bestUb = S.bestLb]                    \* fringe empty: the search is over
SPop(S, x) == [S EXCEPT !.fringe = FPop(S.fringe, x), !.open[x.depth] = S.open[x.depth] - 1, !.bestUb = x.ub]
\* process_one_node skips the node when its bound cannot beat the incumbent or the cache says so
SSkips(S, sp, cacheOn) == sp.ub <= S.bestLb \/ (cacheOn /\ ~MustExplore(S.table, sp))
\* maybe_update_best after a compilation whose best exact value is bev
SUpdate(S, bev) == IF bev > S.bestLb THEN [S EXCEPT !.bestLb = bev, !.hasSol = TRUE] ELSE S
\* enqueue_cutset: bound capped by the parent's, pushed iff it can still beat the incumbent
SCapped(c, parentUb) == [c EXCEPT !.ub = Min2(parentUb, c.ub)]
SKeep(S, c, parentUb) == Min2(parentUb, c.ub) > S.bestLb
SAbort(S) == [S EXCEPT !.abort = TRUE, !.fringe = EmptyBag, !.table = CEmpty]
=============================================================================
