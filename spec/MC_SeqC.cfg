SPECIFICATION CSpec
CONSTANTS Widths = {1, 2} Cuts = {"lel", "fc"}
INVARIANTS C09_RouteExists C09_SameAnswer LbSound
CHECK_DEADLOCK FALSE
