SPECIFICATION Spec
CONSTANTS NSpawn = 3 TreeId = 2 Det = FALSE WithCutoff = TRUE Variant = "code"
INVARIANTS C03_Optimal C05_BoundsSound C05_ExactTruthful C04_NeverWaitWhenIdle Acc_Ongoing Acc_Open Acc_UbVec RouteExistsT
PROPERTIES C04_CompleteOnlyWhenIdle C04_Termination RefinesCounters
