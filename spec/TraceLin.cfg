SPECIFICATION Spec
CONSTRAINT Far
POSTCONDITION Accepted
CHECK_DEADLOCK FALSE
