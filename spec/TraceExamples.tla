--------------------------- MODULE TraceExamples ---------------------------
(* C16: every run of a shipped example binary on a generated instance file is one event; the     *)
(* objective it printed is compared with the declarative optimum of Examples.tla (evaluated once *)
(* per instance).  A crash, a hang (watchdog) or an unexpected abort is a tagged deviation too.  *)
EXTENDS Examples, Json, IOUtils
Rec == ndJsonDeserialize(IOEnv.TRACE)
VARIABLES l, ex, expected, run, devs
vars == <<l, ex, expected, run, devs>>
Init == l = 1 /\ ex = "-" /\ expected = 0 /\ run = 0 /\ devs = {}
Ev(e) == l <= Len(Rec) /\ Rec[l].ev = e /\ l' = l + 1
TReset == Ev("reset") /\ ex' = Rec[l].ex /\ run' = Rec[l].run /\ expected' = Expected(Rec[l].ex, Rec[l].inst) /\ UNCHANGED devs
Add(tag) == IF Cardinality(devs) < 60 THEN devs \cup {<<"C16 " \o ex \o " " \o tag, l, run, ex>>} ELSE devs
TRun == /\ Ev("exrun")
        /\ LET e == Rec[l] IN
           devs' = (IF e.status = "crash" THEN Add("crash")
                    ELSE IF e.status = "hang" THEN Add("hang")
                    ELSE IF e.status = "unparsable" THEN Add("unparsable-output")
                    ELSE IF e.aborted THEN Add("aborted-without-cutoff")
                    ELSE IF e.objective # expected THEN Add("wrong-objective")
                    ELSE devs)
        /\ UNCHANGED <<ex, expected, run>>
Next == TReset \/ TRun
Spec == Init /\ [][Next]_vars
Report == l = Len(Rec) + 1 => PrintT(<<"RESULT", ToJson([total |-> Len(Rec), devs |-> devs])>>)
Accepted == TLCGet("stats").diameter - 1 = Len(Rec)
=============================================================================
