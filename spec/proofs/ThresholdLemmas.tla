------------------------- MODULE ThresholdLemmas -------------------------
(* Machine-checked (TLAPS) algebra of the threshold cache of ThresholdCache.tla: the           *)
(* (value, explored) order is total on Int \X BOOLEAN, ThMax is its join (commutative,         *)
(* associative, idempotent), an update never lowers an entry and updates commute.  This is     *)
(* what justifies (a) publishing the thresholds of one finished diagram in ONE step in         *)
(* MC_ParC.tla although the code publishes them one by one through a concurrent map -- any     *)
(* order of the same updates yields the same table, and every intermediate table lies between  *)
(* the two -- and (b) the clause "a stored threshold never decreases" of C18 at the level of   *)
(* the sequential specification; and that must_explore is antitone in the table: raising an    *)
(* entry can only turn "explore" into "skip", never the converse.                              *)
EXTENDS ThresholdCache, TLAPS            \* ThLess, ThMax, CGet, CUpd, MustExplore are the definitions TLC uses
Th == Int \X BOOLEAN
ThLeq(a, b) == a = b \/ ThLess(a, b)
\* Cache::must_explore against one entry
Must(v, th) == v > th[1] \/ (v = th[1] /\ ~th[2])

LEMMA Total == \A a, b \in Th : ThLess(a, b) \/ a = b \/ ThLess(b, a)
  <1> SUFFICES ASSUME NEW a \in Th, NEW b \in Th PROVE ThLess(a, b) \/ a = b \/ ThLess(b, a)
    OBVIOUS
  <1>1. a = <<a[1], a[2]>> /\ b = <<b[1], b[2]>>
    BY DEF Th
  <1>2. a[1] \in Int /\ b[1] \in Int /\ a[2] \in BOOLEAN /\ b[2] \in BOOLEAN
    BY DEF Th
  <1>3. CASE a[1] = b[1] /\ a[2] = b[2]
    BY <1>1, <1>3
  <1>4. CASE ~(a[1] = b[1] /\ a[2] = b[2])
    BY <1>2, <1>4 DEF ThLess
  <1> QED BY <1>3, <1>4
LEMMA Irreflexive == \A a \in Th : ~ThLess(a, a)
  BY DEF Th, ThLess
LEMMA Transitive == \A a, b, c \in Th : ThLess(a, b) /\ ThLess(b, c) => ThLess(a, c)
  BY DEF Th, ThLess
LEMMA Asymmetric == \A a, b \in Th : ThLess(a, b) => ~ThLess(b, a)
  BY DEF Th, ThLess
LEMMA MaxInTh == \A a, b \in Th : ThMax(a, b) \in Th
  BY DEF ThMax
LEMMA MaxCommutes == \A a, b \in Th : ThMax(a, b) = ThMax(b, a)
  BY Total, Asymmetric DEF ThMax
LEMMA MaxIdempotent == \A a \in Th : ThMax(a, a) = a
  BY DEF ThMax
LEMMA MaxUpper == \A a, b \in Th : ThLeq(a, ThMax(a, b)) /\ ThLeq(b, ThMax(a, b))
  BY Total, Asymmetric DEF ThMax, ThLeq
LEMMA MaxAssociative == \A a, b, c \in Th : ThMax(ThMax(a, b), c) = ThMax(a, ThMax(b, c))
  <1> SUFFICES ASSUME NEW a \in Th, NEW b \in Th, NEW c \in Th PROVE ThMax(ThMax(a, b), c) = ThMax(a, ThMax(b, c))
    OBVIOUS
  <1>1. CASE ThLess(a, b) /\ ThLess(b, c)
    BY <1>1, Transitive DEF ThMax
  <1>2. CASE ThLess(a, b) /\ ~ThLess(b, c)
    BY <1>2 DEF ThMax
  <1>3. CASE ~ThLess(a, b) /\ ThLess(b, c)
    BY <1>3 DEF ThMax
  <1>4. CASE ~ThLess(a, b) /\ ~ThLess(b, c)
    <2>1. ~ThLess(a, c)
      BY <1>4, Total, Transitive, Asymmetric
    <2> QED BY <1>4, <2>1 DEF ThMax
  <1> QED BY <1>1, <1>2, <1>3, <1>4
\* an update never lowers the stored entry (C18: "a stored threshold never decreases")
LEMMA UpdateNeverLowers == \A old, x \in Th : ThLeq(old, ThMax(old, x))
  BY MaxUpper
\* two updates of the same entry commute (different entries commute trivially): publication order is irrelevant
LEMMA UpdatesCommute == \A old, x, y \in Th : ThMax(ThMax(old, x), y) = ThMax(ThMax(old, y), x)
  <1> SUFFICES ASSUME NEW old \in Th, NEW x \in Th, NEW y \in Th PROVE ThMax(ThMax(old, x), y) = ThMax(ThMax(old, y), x)
    OBVIOUS
  <1>1. ThMax(ThMax(old, x), y) = ThMax(old, ThMax(x, y))
    BY MaxAssociative
  <1>2. ThMax(ThMax(old, y), x) = ThMax(old, ThMax(y, x))
    BY MaxAssociative
  <1>3. ThMax(x, y) = ThMax(y, x)
    BY MaxCommutes
  <1> QED BY <1>1, <1>2, <1>3
\* must_explore is antitone in the entry: a larger entry never re-opens what a smaller one closed
LEMMA MustAntitone == \A v \in Int : \A a, b \in Th : ThLeq(a, b) /\ Must(v, b) => Must(v, a)
  BY DEF Th, ThLeq, ThLess, Must
\* the link with the operators of ThresholdCache.tla
LEMMA MustExploreIsMust == \A t, sp : MustExplore(t, sp) <=> (CGet(t, sp.depth, sp.st) = NoTh \/ Must(sp.value, CGet(t, sp.depth, sp.st)))
  BY DEF MustExplore, Must
LEMMA UpdateWritesMax == \A t, d, s, x : <<d, s>> \in DOMAIN t => CUpd(t, d, s, x)[<<d, s>>] = ThMax(t[<<d, s>>], x)
  BY DEF CUpd
LEMMA UpdateTouchesOneKey == \A t, d, s, x, k : k \in DOMAIN t /\ k # <<d, s>> => CUpd(t, d, s, x)[k] = t[k]
  BY DEF CUpd
=============================================================================
