SPECIFICATION Spec
INVARIANT Report
POSTCONDITION Accepted
CHECK_DEADLOCK FALSE
