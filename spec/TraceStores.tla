----------------------------- MODULE TraceStores -----------------------------
(* Trace validation of sequential histories of the real SimpleCache, SimpleDominanceChecker,    *)
(* Dominance::cmp, Solver::gap() and the width combinators (engine `ds`).                        *)
EXTENDS ThresholdCache, DominanceStore, Gap, Width, Json, IOUtils
Rec == ndJsonDeserialize(IOEnv.TRACE)
VARIABLES l, table, store, uv, devs, run
vars == <<l, table, store, uv, devs, run>>
Add(d, tags) == IF Cardinality(d) < 40 THEN d \cup {<<t, l, run>> : t \in tags} ELSE d
Init == l = 1 /\ table = CEmpty /\ store = <<>> /\ uv = TRUE /\ devs = {} /\ run = 0
Ev(e) == l <= Len(Rec) /\ Rec[l].ev = e /\ l' = l + 1
TReset == Ev("reset") /\ table' = CEmpty /\ store' = <<>> /\ uv' = Rec[l].uv /\ run' = Rec[l].run /\ UNCHANGED devs
TUpd == Ev("cupd") /\ LET e == Rec[l] IN table' = CUpd(table, e.depth, e.st, <<e.value, e.explored>>) /\ UNCHANGED <<store, uv, devs, run>>
TGet == Ev("cget") /\ LET e == Rec[l]  exp == CGet(table, e.depth, e.st) IN
          /\ devs' = (IF <<e.ret[1], e.ret[2]>> = exp THEN devs ELSE Add(devs, {"C18 read"}))
          \* adopt what the implementation holds for that key
          /\ table' = (IF <<e.ret[1], e.ret[2]>> = exp THEN table
                       ELSE IF <<e.ret[1], e.ret[2]>> = NoTh THEN [k \in (DOMAIN table) \ {<<e.depth, e.st>>} |-> table[k]]
                       ELSE [k \in (DOMAIN table) \cup {<<e.depth, e.st>>} |-> IF k = <<e.depth, e.st>> THEN <<e.ret[1], e.ret[2]>> ELSE table[k]])
          /\ UNCHANGED <<store, uv, run>>
TMust == Ev("cmust") /\ LET e == Rec[l] IN
          /\ devs' = (IF e.ret = MustExplore(table, [st |-> e.st, depth |-> e.depth, value |-> e.value]) THEN devs ELSE Add(devs, {"C09 must-explore"}))
          /\ UNCHANGED <<table, store, uv, run>>
TClearLayer == Ev("cclear_layer") /\ table' = CClearLayer(table, Rec[l].depth) /\ UNCHANGED <<store, uv, devs, run>>
TClear == Ev("cclear") /\ table' = CEmpty /\ UNCHANGED <<store, uv, devs, run>>
TQuery == Ev("dquery") /\ LET e == Rec[l]
                              front == DFront(store, e.depth, e.key)
                              exp == e.key # 0 /\ IsDominated(front, e.c, e.value, uv) IN      \* key 0: the driver's "no key" state
          /\ devs' = Add(devs, (IF e.dominated # exp THEN {"C10 verdict"} ELSE {}) \cup
                               (IF e.dominated /\ exp /\ ~ThresholdSound(front, e.c, e.value, e.threshold, uv) THEN {"C10 threshold"} ELSE {}))
          /\ store' = (IF e.dominated \/ e.key = 0 THEN store ELSE DSet(store, e.depth, e.key, DInsert(front, e.c, e.value, uv)))
          /\ UNCHANGED <<table, uv, run>>
TDClear == Ev("dclear_layer") /\ store' = DClearLayer(store, Rec[l].depth) /\ UNCHANGED <<table, uv, devs, run>>
TCmp == Ev("dcmp") /\ LET e == Rec[l] IN
          /\ devs' = Add(devs, (IF Dominates(e.ca, e.va, e.cb, e.vb, uv) /\ e.ret # 1 THEN {"C10 comparator"} ELSE {}) \cup
                               (IF Dominates(e.cb, e.vb, e.ca, e.va, uv) /\ e.ret # -1 THEN {"C10 comparator"} ELSE {}))
          /\ UNCHANGED <<table, store, uv, run>>
TGap == Ev("gap") /\ devs' = Add(devs, GapTags(Rec[l])) /\ UNCHANGED <<table, store, uv, run>>
TWidth == Ev("width") /\ devs' = Add(devs, WidthTags(Rec[l])) /\ UNCHANGED <<table, store, uv, run>>
TPanic == Ev("panic") /\ devs' = Add(devs, {IF Rec[l].store = "dominance" THEN "C10 panic" ELSE "C18 panic"}) /\ UNCHANGED <<table, store, uv, run>>
Next == TPanic \/ TReset \/ TUpd \/ TGet \/ TMust \/ TClearLayer \/ TClear \/ TQuery \/ TDClear \/ TCmp \/ TGap \/ TWidth
Spec == Init /\ [][Next]_vars
Report == l = Len(Rec) + 1 => PrintT(<<"RESULT", ToJson([total |-> Len(Rec), devs |-> devs])>>)
Accepted == TLCGet("stats").diameter - 1 = Len(Rec)
=============================================================================
