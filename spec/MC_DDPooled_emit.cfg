SPECIFICATION PSpec
CONSTANTS Widths = {1, 2} Cuts = {"fc"} Repaired = TRUE
INVARIANTS PContract PEmit
CHECK_DEADLOCK FALSE
