SPECIFICATION PSpec
CONSTANTS Widths = {1, 2} Cuts = {"fc"}
INVARIANTS ContractButD5 Emit
CHECK_DEADLOCK FALSE
