SPECIFICATION Spec
CONSTANTS KStates = {1, 2} KDepths = {0, 1} Values = {0, 1} Ubs = {1, 2} MaxSize = 4 MaxOps = 6
INVARIANTS HeapInv PosInv StatesInv DenseInv ContentsInv PathInv C11_PopIsMax C11_Len
CHECK_DEADLOCK FALSE
