SPECIFICATION Spec
CONSTANTS Kind = "nodup" States = {"a", "b"} Depths = {0, 1} Values = {0, 1} Ubs = {1, 2} MaxOps = 1 MaxSize = 3 Hist = FALSE
INVARIANTS C11_NoDup
CHECK_DEADLOCK FALSE
