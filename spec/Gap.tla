-------------------------------- MODULE Gap --------------------------------
(* C17 on an order-abstract domain (TLC has neither floats nor 64-bit integers): a bound is     *)
(* described by its rank in the harness's sorted grid of isize values, its sign and whether it  *)
(* is the +-infinity sentinel; the observed gap by the flags the harness computed from the f32. *)
EXTENDS Integers, Sequences, FiniteSets, TLC
\* obs = [lb_rank, ub_rank, lb_sign, ub_sign, lb_inf, ub_inf, nan, neg, zero, one, le1]
GapTags(o) ==
   (IF o.nan THEN {"C17 nan"} ELSE {}) \cup
   (IF o.neg THEN {"C17 negative"} ELSE {}) \cup
   (IF (o.lb_inf \/ o.ub_inf) /\ ~o.one THEN {"C17 not-one-while-infinite"} ELSE {}) \cup
   (IF ~(o.lb_inf \/ o.ub_inf) /\ o.lb_rank = o.ub_rank /\ ~o.zero THEN {"C17 not-zero-at-optimality"} ELSE {}) \cup
   (IF ~(o.lb_inf \/ o.ub_inf) /\ o.lb_rank # o.ub_rank /\ o.zero THEN {"C17 zero-while-bounds-differ"} ELSE {}) \cup
   (IF ~(o.lb_inf \/ o.ub_inf) /\ o.lb_sign * o.ub_sign >= 0 /\ ~o.le1 THEN {"C17 above-one-same-sign"} ELSE {})
=============================================================================
