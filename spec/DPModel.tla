------------------------------ MODULE DPModel ------------------------------
(* The problem and the oracle (DESIGN.md 3.1, 5.1).  A finite DP is DATA: a record I read from  *)
(* the `reset` event of a trace (or from an instance file).  Everything here is declarative and *)
(* shares nothing with the library's algorithms: feasible decision sequences, their value, the  *)
(* exact value-to-go HStar, the optimum, feasibility of a reported solution, and the            *)
(* well-formedness hypotheses of the properties.                                                *)
(*                                                                                              *)
(* Families (I.family): "lifted"   table DP over sets of base states, union merge               *)
(*                      "knapsack" capacity states, max-capacity merge                          *)
(*                      "setpack"  remaining-vertex sets, dynamic variable order                *)
(* A library state is logged as [d |-> depth or -1, x |-> <<members...>> or <<capacity>>].      *)
(* Variables and decision values are 0-based as in the Rust code; tables are 1-based.           *)
EXTENDS Integers, Sequences, FiniteSets, TLC, FiniteSetsExt, SequencesExt

NegInf == -1000000
PosInf == 1000000
NoVal == -1000001                         \* "None" where an Option<isize> is logged
IsNegInf(v) == v <= NegInf \div 2
IsPosInf(v) == v >= PosInf \div 2
Plus(a, b) == IF IsNegInf(a) \/ IsNegInf(b) THEN NegInf ELSE IF IsPosInf(a) \/ IsPosInf(b) THEN PosInf ELSE a + b
Max2(a, b) == IF a >= b THEN a ELSE b
Min2(a, b) == IF a <= b THEN a ELSE b
MaxOr(S, dflt) == IF S = {} THEN dflt ELSE Max(S)

\* ---- semantic states ("q"): a set of base elements, or a capacity
Q(I, st) == IF I.family = "knapsack" THEN st.x[1] ELSE ToSet(st.x)
Vars(I) == 0..(I.n - 1)
ArcOf(I, v, e, a) == I.arcs[v + 1][e][a + 1]          \* <<target (0 = none), cost>>
DomQ(I, v, q) ==
  CASE I.family = "lifted"   -> {a \in 0..(I.m - 1) : \E e \in q : ArcOf(I, v, e, a)[1] # 0}
    [] I.family = "knapsack" -> {0} \cup (IF q >= I.weight[v + 1] THEN {1} ELSE {})
    [] I.family = "setpack"  -> {0} \cup (IF (v + 1) \in q THEN {1} ELSE {})
TrQ(I, v, q, a) ==
  CASE I.family = "lifted"   -> {ArcOf(I, v, e, a)[1] : e \in {f \in q : ArcOf(I, v, f, a)[1] # 0}}
    [] I.family = "knapsack" -> IF a = 1 THEN q - I.weight[v + 1] ELSE q
    [] I.family = "setpack"  -> IF a = 1 THEN q \ (ToSet(I.adj[v + 1]) \cup {v + 1}) ELSE q \ {v + 1}
\* potentials ("deferred rewards", harness: Model::with_potentials): I.pot[d + 1][e], absent or empty = none.  Every arc cost is
\* shifted by Phi(target) - Phi(source), the initial value I.v0 already contains Phi(root), terminal potentials are 0: complete
\* solutions keep their value, sub-problem values are shifted by Phi(state), and the relaxation of the model is not the identity:
\* relax(src, dst, merged, dec, cost) = cost + Phi(merged) - Phi(dst)
HasPot(I) == "pot" \in DOMAIN I /\ Len(I.pot) > 0
Phi(I, d, q) == IF ~HasPot(I) THEN 0
                ELSE IF I.family = "lifted" THEN FoldSet(LAMBDA e, acc : acc + I.pot[d + 1][e], 0, q)
                ELSE IF I.family = "knapsack" THEN I.pot[d + 1][(q % 3) + 1]
                ELSE 0
CoQ0(I, v, q, a) ==
  CASE I.family = "lifted"   -> Max({ArcOf(I, v, e, a)[2] : e \in {f \in q : ArcOf(I, v, f, a)[1] # 0}})
    [] I.family = "knapsack" -> IF a = 1 THEN I.profit[v + 1] ELSE 0
    [] I.family = "setpack"  -> IF a = 1 THEN I.wv[v + 1] ELSE 0
CoQ(I, v, q, a) == IF ~HasPot(I) THEN CoQ0(I, v, q, a) ELSE CoQ0(I, v, q, a) + Phi(I, v + 1, TrQ(I, v, q, a)) - Phi(I, v, q)
RelaxCost(I, d, dstQ, mergedQ, cost) == cost + Phi(I, d, mergedQ) - Phi(I, d, dstQ)
\* long arcs: an element is neutral at v when its only decision is 0, leading to itself at cost 0
NeutralE(I, v, e) == \A a \in 0..(I.m - 1) : IF a = 0 THEN ArcOf(I, v, e, a) = <<e, 0>> ELSE ArcOf(I, v, e, a)[1] = 0
Impacted(I, v, q) ==
  IF ~I.long_arcs THEN TRUE
  ELSE CASE I.family = "lifted" -> ~(\A e \in q : NeutralE(I, v, e))
         [] I.family = "setpack" -> (v + 1) \in q
         [] OTHER -> TRUE
StaticOrder(I) == I.family # "setpack"              \* variable at depth d is d

\* ---- the oracle: exact value-to-go.  Tables are built bottom-up and forced (TLCEval) so that later
\*      look-ups are constant time; HT is kept in a variable by the specifications that use it.
Univ(I) == IF I.family = "knapsack" THEN 0..I.root[1] ELSE IF I.family = "lifted" THEN (SUBSET (1..I.b)) \ {{}} ELSE SUBSET (1..I.n)
RECURSIVE HLevels(_, _, _)
HLevels(I, d, below) ==        \* below = table of depth d+1 ; returns the sequence of tables for depths d, d+1, ... n (index 1 = depth d)
  LET mine == TLCEval([q \in Univ(I) |-> MaxOr({Plus(CoQ(I, d, q, a), below[TrQ(I, d, q, a)]) : a \in DomQ(I, d, q)} \ {NegInf}, NegInf)])
  IN IF d = 0 THEN <<mine>> ELSE Append(HLevels(I, d - 1, mine), mine)
RECURSIVE SPLevels(_, _, _)
SPLevels(I, k, acc) ==
  IF k > I.n THEN acc
  ELSE LET new == [q \in {s \in SUBSET (1..I.n) : Cardinality(s) = k} |->
                      LET v == Min(q) IN Max2(acc[q \ {v}], I.wv[v] + acc[q \ (ToSet(I.adj[v]) \cup {v})])]
       IN SPLevels(I, k + 1, TLCEval(acc @@ new))
\* static families: <<H_0, ..., H_n>> (index depth+1); setpack: one table
HTable(I) == IF StaticOrder(I)
             THEN LET last == TLCEval([q \in Univ(I) |-> 0]) IN
                  IF I.n = 0 THEN <<last>> ELSE Append(HLevels(I, I.n - 1, last), last)
             ELSE SPLevels(I, 1, ({} :> 0))
HStar(I, HT, depth, q) == IF StaticOrder(I) THEN HT[depth + 1][q] ELSE HT[q]
RootQ(I) == IF I.family = "knapsack" THEN I.root[1] ELSE ToSet(I.root)
Opt(I, HT) == Plus(I.v0, HStar(I, HT, 0, RootQ(I)))                  \* NegInf = infeasible

\* ---- replaying reported decisions.  decs: a set of <<variable, value>>.
DecSet(seq) == {<<seq[i][1], seq[i][2]>> : i \in DOMAIN seq}
OnePerVar(seq) == \A i, j \in DOMAIN seq : seq[i][1] = seq[j][1] => i = j
\* replay variables var, var+1, ... upTo-1 in index order; a variable without decision takes the default 0
RECURSIVE Replay(_, _, _, _, _, _)
Replay(I, var, upTo, q, val, decs) ==           \* returns <<q, value>> ; value NegInf = infeasible
  IF var >= upTo THEN <<q, val>>
  ELSE LET mine == {x \in decs : x[1] = var}
           a == IF mine = {} THEN 0 ELSE (CHOOSE x \in mine : TRUE)[2] IN
       IF a \notin DomQ(I, var, q) THEN <<q, NegInf>>
       ELSE Replay(I, var + 1, upTo, TrQ(I, var, q, a), val + CoQ(I, var, q, a), decs)
\* may a solution leave variables undecided (neutral default implied) ?
DefaultsAllowed(I) == I.long_arcs \/ I.family = "setpack"
FeasibleSolution(I, seq, v) ==
  /\ OnePerVar(seq)
  /\ \A i \in DOMAIN seq : seq[i][1] \in Vars(I)
  /\ (DefaultsAllowed(I) \/ {seq[i][1] : i \in DOMAIN seq} = Vars(I))
  /\ LET r == Replay(I, 0, I.n, RootQ(I), I.v0, DecSet(seq)) IN ~IsNegInf(r[2]) /\ r[2] = v
\* C08(i): a sub-problem [st, depth, value, path] is exact
ExactSubProblem(I, sp) ==
  /\ OnePerVar(sp.path)
  /\ IF StaticOrder(I)
     THEN /\ \A i \in DOMAIN sp.path : sp.path[i][1] \in 0..(sp.depth - 1)
          /\ (DefaultsAllowed(I) \/ Len(sp.path) = sp.depth)
          /\ LET r == Replay(I, 0, sp.depth, RootQ(I), I.v0, DecSet(sp.path)) IN r[1] = Q(I, sp.st) /\ r[2] = sp.value
     ELSE /\ Len(sp.path) = sp.depth
          \* order-free model: decided variables replayed in index order, the others left alone
          /\ LET dv == {sp.path[i][1] : i \in DOMAIN sp.path}
                 RECURSIVE Go(_, _, _)
                 Go(var, q, val) == IF var >= I.n THEN <<q, val>>
                                    ELSE IF var \notin dv THEN Go(var + 1, q, val)
                                    ELSE LET a == (CHOOSE x \in DecSet(sp.path) : x[1] = var)[2] IN
                                         IF a \notin DomQ(I, var, q) THEN <<q, NegInf>> ELSE Go(var + 1, TrQ(I, var, q, a), val + CoQ(I, var, q, a))
                 r == Go(0, RootQ(I), I.v0) IN r[1] = Q(I, sp.st) /\ r[2] = sp.value
SpOpt(I, HT, sp) == Plus(sp.value, HStar(I, HT, sp.depth, Q(I, sp.st)))    \* best completion through a sub-problem

\* ---- all completions of a sub-problem, as <<set of decisions on the remaining variables, value-to-go>>
RECURSIVE Comps(_, _, _)
Comps(I, var, q) ==
  IF var >= I.n THEN {<<{}, 0>>}
  ELSE UNION {{<<{<<var, a>>} \cup c[1], CoQ(I, var, q, a) + c[2]>> : c \in Comps(I, var + 1, TrQ(I, var, q, a))} : a \in DomQ(I, var, q)}
\* the remaining variables of a sub-problem: static order = depth.. ; setpack = all (decided ones are forced to 0, cost 0)
Completions(I, sp) == Comps(I, IF StaticOrder(I) THEN sp.depth ELSE 0, Q(I, sp.st))
\* does completion p of `root` run through sub-problem c (C08 iv) ?  the decisions of p on the variables
\* decided between root and c lead from root's state to c's state
Through(I, root, c, p) ==
  IF StaticOrder(I)
  THEN LET r == Replay(I, root.depth, c.depth, Q(I, root.st), 0, p[1]) IN ~IsNegInf(r[2]) /\ r[1] = Q(I, c.st) /\ root.value + r[2] <= c.value
  ELSE LET between == {c.path[i][1] : i \in DOMAIN c.path} \ {root.path[i][1] : i \in DOMAIN root.path}
           RECURSIVE Go(_, _, _)
           Go(var, q, val) == IF var >= I.n THEN <<q, val>>
                              ELSE IF var \notin between THEN Go(var + 1, q, val)
                              ELSE LET a == (CHOOSE x \in p[1] : x[1] = var)[2] IN
                                   IF a \notin DomQ(I, var, q) THEN <<q, NegInf>> ELSE Go(var + 1, TrQ(I, var, q, a), val + CoQ(I, var, q, a))
           r == Go(0, Q(I, root.st), 0) IN ~IsNegInf(r[2]) /\ r[1] = Q(I, c.st) /\ root.value + r[2] <= c.value

\* ---- the dominance rule of the model families (harness: ModelDominance): coordinates = membership bits / capacity, value used;
\*      the "keyed" rule only compares states whose cardinality has the same parity
PopCount(I, q) == IF I.family = "knapsack" THEN Cardinality({i \in 0..30 : (q \div (2 ^ i)) % 2 = 1}) ELSE Cardinality(q)
DomCoords(I, st) == IF I.family = "knapsack" THEN <<st.x[1]>> ELSE [i \in 1..I.b |-> IF i \in ToSet(st.x) THEN 1 ELSE 0]
\* "keyed": states whose cardinality is a multiple of 3 have no key at all (-1 = DominanceStore!NoDKey)
DomKey(I, st) == IF I.dom = "keyed" THEN (IF PopCount(I, Q(I, st)) % 3 = 0 THEN -1 ELSE PopCount(I, Q(I, st)) % 2) ELSE 0

\* ---- well-formedness (hypotheses of the properties), evaluated on every instance before anything else
StateCode(I, q) == IF I.family = "knapsack" THEN q ELSE FoldSet(LAMBDA e, acc : acc + 2 ^ (e - 1), 0, q)     \* the harness' bit mask / capacity
RubOf(I, HT, depth, q) ==
  CASE I.rub = "none" -> PosInf
    [] I.rub = "exact" -> IF IsNegInf(HStar(I, HT, depth, q)) THEN -1000 ELSE HStar(I, HT, depth, q)
    \* "noisy": a state-dependent slack in 0..I.slack -- the bound is admissible but not monotone in the value of the node
    [] I.rub = "noisy" -> (IF IsNegInf(HStar(I, HT, depth, q)) THEN -1000 ELSE HStar(I, HT, depth, q))
                          + ((7 * (IF I.with_depth THEN depth ELSE 0) + 13 * StateCode(I, q)) % (I.slack + 1))
    [] OTHER -> IF IsNegInf(HStar(I, HT, depth, q)) THEN -1000 + I.slack ELSE HStar(I, HT, depth, q) + I.slack
\* merge over-approximates: for these families HStar is monotone in q (subset order / capacity order)
Leq(I, q1, q2) == IF I.family = "knapsack" THEN q1 <= q2 ELSE q1 \subseteq q2
WellFormed(I, HT) ==
  /\ I.n >= 0
  \* (quadratic in the number of states: checked on the instances with at most 5 base states; the wide ones are built by the same generator)
  /\ (I.family = "lifted" /\ I.b > 5) \/ \A q1, q2 \in Univ(I) : Leq(I, q1, q2) =>
        IF StaticOrder(I) THEN \A d \in 0..I.n : Plus(HT[d + 1][q1], Phi(I, d, q1)) <= Plus(HT[d + 1][q2], Phi(I, d, q2)) ELSE HT[q1] <= HT[q2]
  /\ (HasPot(I) => StaticOrder(I) /\ I.with_depth /\ ~I.long_arcs /\ I.dom = "none" /\ \A e \in DOMAIN I.pot[I.n + 1] : I.pot[I.n + 1][e] = 0)
  /\ (I.rub # "none" => I.slack >= 0)
=============================================================================
