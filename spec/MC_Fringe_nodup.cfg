SPECIFICATION Spec
CONSTANTS Kind = "nodup" States = {"a", "b"} Depths = {0, 1} Values = {0, 1} Ubs = {1, 2} MaxOps = 5 MaxSize = 3 Hist = TRUE
INVARIANTS C11_NoDup C11_NothingInvented C11_NothingLost C11_UbMax C11_Len
PROPERTY C11_Order
CHECK_DEADLOCK FALSE
