SPECIFICATION PSpec
CONSTANTS Widths = {1, 2} Cuts = {"fc"} Repaired = FALSE
INVARIANTS C08_Progress
CHECK_DEADLOCK FALSE
