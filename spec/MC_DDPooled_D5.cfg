SPECIFICATION PSpec
CONSTANTS Widths = {1, 2} Cuts = {"fc"}
INVARIANTS C08_Progress
CHECK_DEADLOCK FALSE
