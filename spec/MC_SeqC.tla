------------------------------ MODULE MC_SeqC ------------------------------
(* The composed caching search (C09 on the specification): the sequential loop of SeqBnB.tla,     *)
(* each compilation carried out by the diagram model DD.tla -- including _filter_with_cache and   *)
(* the bottom-up thresholds of _compute_thresholds -- and the threshold table of                  *)
(* ThresholdCache.tla fed by the cache updates of every finished diagram, cleared layer by layer  *)
(* as get_workload does.  TLC explores every tie-break of every diagram and every pop order of    *)
(* equally ranked fringe nodes, and checks at every step that the cache never discards the last   *)
(* route to a better solution (C09_RouteExists) and that the search ends on the optimum.          *)
EXTENDS DD, SeqBnB
VARIABLES S, phase, cur, width
svars == <<S, phase, cur, width>>
allvars == <<vars, svars>>
NoCur == [st |-> <<>>, depth |-> 0, value |-> 0, ub |-> NegInf, path |-> <<>>]
RootSP == [st |-> StOf(0, RootQ(I)), depth |-> 0, value |-> I.v0, ub |-> PosInf, path |-> <<>>]
CInit == /\ ii \in 1..Len(Insts) /\ cut \in Cuts /\ width \in Widths
         /\ HT = HTable(Insts[ii])
         /\ inp = <<>> /\ nodes = <<>> /\ edges = {} /\ layers = <<>> /\ nextL = {} /\ lel = 0 /\ pc = "idle" /\ res = <<>> /\ maxExpanded = <<>> /\ cacheT = CEmpty
         /\ S = SInit("simple", [st |-> StOf(0, RootQ(Insts[ii])), depth |-> 0, value |-> Insts[ii].v0, ub |-> PosInf, path |-> <<>>], Insts[ii].n)
         /\ phase = "pop" /\ cur = NoCur
SP(x) == [st |-> x.st, depth |-> x.depth, value |-> x.value, ub |-> x.ub, path |-> CHOOSE p \in x.paths : TRUE]
QOf(sp) == Q(I, sp.st)
StartCompile(sp, type, lb, table) ==
  /\ inp' = [type |-> type, width |-> width, best_lb |-> lb, root |-> sp, q0 |-> QOf(sp)]
  /\ nodes' = (KeyN(1, QOf(sp)) :> NewNode(QOf(sp), sp.value, TRUE, sp.depth))
  /\ nextL' = {KeyN(1, QOf(sp))} /\ edges' = {} /\ layers' = <<>> /\ lel' = 0 /\ pc' = "loop" /\ res' = <<>> /\ maxExpanded' = <<>>
  /\ cacheT' = table
\* get_workload + the two tests at the top of process_one_node
Pop == /\ phase = "pop"
       /\ LET S1 == SClean(S, N) IN
          /\ S1.fringe # EmptyBag
          /\ \E x \in Poppable(S1.fringe) :
               LET S2 == SPop(S1, x)  sp == SP(x) IN
               IF SSkips(S2, sp, TRUE)
               THEN /\ S' = S2 /\ UNCHANGED <<inp, nodes, edges, layers, nextL, lel, pc, res, maxExpanded, cacheT, phase, cur>>
               ELSE /\ S' = S2 /\ StartCompile(sp, "restricted", S2.bestLb, S2.table) /\ phase' = "compile" /\ cur' = sp
       /\ UNCHANGED <<ii, HT, cut, width>>
Complete == /\ phase = "pop" /\ SClean(S, N).fringe = EmptyBag /\ S' = SComplete(SClean(S, N)) /\ phase' = "done"
            /\ UNCHANGED <<vars, cur, width>>
RECURSIVE ApplyUpdates(_, _)
ApplyUpdates(t, us) == IF us = {} THEN t ELSE LET u == CHOOSE x \in us : TRUE IN ApplyUpdates(CUpd(t, u.d, u.st, <<u.v, u.e>>), us \ {u})
RECURSIVE PushAll(_, _)
PushAll(f, X) == IF X = {} THEN f ELSE LET x == CHOOSE y \in X : TRUE IN PushAll(FPush("simple", f, Item(x)), X \ {x})
\* maybe_update_best, then either the relaxed compilation or enqueue_cutset
After == /\ phase = "compile" /\ pc = "done"
         /\ LET S1 == [SUpdate(S, res.bev) EXCEPT !.table = ApplyUpdates(S.table, res.cu)] IN
            IF inp.type = "restricted" /\ ~res.exact
            THEN /\ S' = S1 /\ StartCompile(cur, "relaxed", S1.bestLb, S1.table) /\ UNCHANGED <<phase, cur>>
            ELSE /\ LET keep == IF inp.type = "relaxed" /\ ~res.exact THEN {SCapped(c, cur.ub) : c \in {x \in res.cs : SKeep(S1, x, cur.ub)}} ELSE {} IN
                    S' = [S1 EXCEPT !.fringe = PushAll(S1.fringe, keep),
                                    !.open = [d \in DOMAIN S1.open |-> S1.open[d] + Cardinality({c \in keep : c.depth = d})]]
                 /\ phase' = "pop" /\ cur' = NoCur /\ pc' = "idle"
                 /\ UNCHANGED <<inp, nodes, edges, layers, nextL, lel, res, maxExpanded, cacheT>>
         /\ UNCHANGED <<ii, HT, cut, width>>
CNext == Pop \/ Complete \/ After
         \/ (phase = "compile" /\ (Layer \/ EndLoop \/ Finalize) /\ UNCHANGED svars)
         \/ (phase = "done" /\ UNCHANGED allvars)
CSpec == CInit /\ [][CNext]_allvars

\* ---- C09 on the model
OptI == Opt(I, HT)
LiveN(n) == SpOpt(I, HT, n) = OptI /\ n.ub > S.bestLb /\ MustExplore(S.table, n)
C09_RouteExists == (phase \in {"pop", "compile"} /\ S.bestLb < OptI) =>
                      \/ (phase = "compile" /\ SpOpt(I, HT, cur) = OptI)
                      \/ \E x \in BagToSet(S.fringe) : LiveN([st |-> x.st, depth |-> x.depth, value |-> x.value, ub |-> x.ub])
C09_SameAnswer == phase = "done" => S.bestLb = OptI /\ S.bestUb = OptI
LbSound == S.bestLb <= OptI
=============================================================================
