----------------------------- MODULE TraceFringe -----------------------------
(* Trace validation of real fringe executions (engine `ds`): every recorded push / pop / clear  *)
(* is replayed through Fringe.tla's operators; a failed guard is recorded as a tagged deviation, *)
(* the implementation's state is adopted and validation goes on (DESIGN.md 4.4).                 *)
EXTENDS Fringe, Json, IOUtils
Rec == ndJsonDeserialize(IOEnv.TRACE)
VARIABLES l, kind, items, devs, run
vars == <<l, kind, items, devs, run>>
Dev(tag) == IF Cardinality(devs) < 40 THEN devs \cup {<<tag, l, run>>} ELSE devs
SP(n) == [st |-> n.st, depth |-> n.depth, value |-> n.value, ub |-> n.ub, path |-> n.path]

Init == l = 1 /\ kind = "simple" /\ items = EmptyBag /\ devs = {} /\ run = 0
Ev(e) == l <= Len(Rec) /\ Rec[l].ev = e /\ l' = l + 1
LenDev(its, d) == IF FLen(its) = Rec[l].len THEN d ELSE IF Cardinality(d) < 40 THEN d \cup {<<"C11 len", l, run>>} ELSE d
TReset == Ev("reset") /\ kind' = Rec[l].kind /\ items' = EmptyBag /\ run' = Rec[l].run /\ UNCHANGED devs
TPush == Ev("push") /\ items' = FPush(kind, items, Item(SP(Rec[l].node))) /\ devs' = LenDev(items', devs) /\ UNCHANGED <<kind, run>>
TPop == /\ Ev("pop")
        /\ LET sp == SP(Rec[l].node)
               cands == {x \in Poppable(items) : Matches(sp, x)}
               same == {x \in BagToSet(items) : x.st = sp.st /\ x.depth = sp.depth} IN
           IF cands # {}
           THEN /\ items' = FPop(items, CHOOSE x \in cands : TRUE) /\ devs' = LenDev(items', devs)
           ELSE /\ items' = (IF same # {} THEN FPop(items, CHOOSE x \in same : TRUE) ELSE items)   \* adopt, go on
                /\ devs' = Dev(IF \E x \in BagToSet(items) : Matches(sp, x) THEN "C11 pop-not-max"
                               ELSE IF same # {} THEN "C11 pop-altered-item" ELSE "C11 pop-invented")
        /\ UNCHANGED <<kind, run>>
TPopNone == Ev("pop_none") /\ devs' = (IF items = EmptyBag THEN devs ELSE Dev("C11 lost-items")) /\ items' = EmptyBag /\ UNCHANGED <<kind, run>>
TClear == Ev("fclear") /\ items' = EmptyBag /\ devs' = LenDev(items', devs) /\ UNCHANGED <<kind, run>>
TPanic == Ev("panic") /\ devs' = Dev("C11 panic") /\ UNCHANGED <<kind, items, run>>      \* the fringe panicked inside this operation; the run ends
Next == TReset \/ TPush \/ TPop \/ TPopNone \/ TClear \/ TPanic
Spec == Init /\ [][Next]_vars
Report == l = Len(Rec) + 1 => PrintT(<<"RESULT", ToJson([total |-> Len(Rec), devs |-> devs])>>)
Accepted == TLCGet("stats").diameter - 1 = Len(Rec)
=============================================================================
