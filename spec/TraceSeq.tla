------------------------------ MODULE TraceSeq ------------------------------
(* Trace validation of real SequentialSolver runs (engine `seq`).  Each run opens with a `reset` *)
(* event carrying the instance and the configuration.  "full" runs log every fringe / cache /     *)
(* dominance operation and every compilation; "ret" runs (cutoff series) only their outcome.      *)
(* The specification replays the run through SeqBnB's operators (which re-use Fringe and          *)
(* ThresholdCache), checks every compilation against DDContract when it was made in isolation,    *)
(* evaluates the C09 route monitor at every pop and the outcome properties at `return`.           *)
(* Deviations are tagged with the property they belong to, recorded, the implementation's state   *)
(* adopted, and validation continues.  Tags starting with DIV are divergences (never a verdict).  *)
EXTENDS SeqBnB, DDContract, DominanceStore, Gap, Json, IOUtils
Rec == ndJsonDeserialize(IOEnv.TRACE)
VARIABLES l, I, HT, cfg, S, cur, compiledCur, inp, res, baseRet, prevRet, primalMax, held, skipOK, store, devs,
          ever,      \* <<depth, q>> -> largest value with which that sub-problem was ever put on the fringe in this run
          pendW      \* thresholds written since the last pop, judged at the next one (C09 unsound-threshold)
vars == <<l, I, HT, cfg, S, cur, compiledCur, inp, res, baseRet, prevRet, primalMax, held, skipOK, store, devs, ever, pendW>>
None == <<>>
Add(d, tags) == IF Cardinality(d) < 60 THEN d \cup {<<t, l, cfg.run, "-">> : t \in tags} ELSE d
SP(n) == [st |-> n.st, depth |-> n.depth, value |-> n.value, ub |-> n.ub, path |-> n.path]
Isolated == ~cfg.cache /\ ~cfg.dom
Full == cfg.level = "full"
EmptyS == [fringe |-> EmptyBag, table |-> CEmpty, bestLb |-> NegInf, hasSol |-> FALSE, bestUb |-> PosInf, abort |-> FALSE, open |-> <<>>, first |-> 0]
Cfg0 == [run |-> 0, cache |-> FALSE, dom |-> FALSE, fringe |-> "simple", level |-> "ret", role |-> "base", series |-> -1, last |-> FALSE,
         dd |-> "lel", width |-> 1, cut_at |-> 0, nprimal |-> 0, inst_id |-> -1]

Init == /\ l = 1 /\ I = None /\ HT = None /\ cfg = Cfg0 /\ S = EmptyS /\ cur = None /\ compiledCur = FALSE
        /\ inp = None /\ res = None /\ baseRet = None /\ prevRet = None /\ primalMax = NegInf /\ held = None /\ skipOK = FALSE /\ store = <<>> /\ devs = {} /\ ever = <<>> /\ pendW = {}
Ev(e) == l <= Len(Rec) /\ Rec[l].ev = e /\ l' = l + 1

TReset ==
  /\ Ev("reset")
  /\ LET e == Rec[l] IN
     /\ I' = e.inst
     /\ HT' = (IF e.inst = I THEN HT ELSE HTable(e.inst))
     /\ cfg' = [run |-> e.run, cache |-> e.cache, dom |-> e.dom, fringe |-> e.fringe, level |-> e.level, role |-> e.role, series |-> e.series,
                last |-> e.last, dd |-> e.dd, width |-> e.width, cut_at |-> e.cut_at, nprimal |-> e.nprimal, inst_id |-> e.inst_id]
     /\ S' = EmptyS /\ cur' = None /\ compiledCur' = FALSE /\ inp' = None /\ res' = None /\ primalMax' = NegInf /\ held' = None /\ skipOK' = FALSE /\ store' = <<>> /\ ever' = <<>> /\ pendW' = {}
     /\ baseRet' = (IF e.role = "base" THEN None ELSE baseRet)
     /\ prevRet' = (IF e.role = "cut" /\ e.series = cfg.series THEN prevRet ELSE None)
     /\ devs' = (IF e.inst = I \/ WellFormed(I', HT') THEN devs ELSE Add(devs, {"HARNESS ill-formed-instance"}))

\* ------------------------------------------------------------------ warm start (C14)
TPrimal ==
  /\ Ev("set_primal")
  /\ LET e == Rec[l]  S2 == SPrimal(S, e.value)  replaces == e.value > S.bestLb IN
     /\ S' = S2
     /\ primalMax' = Max2(primalMax, e.value)
     /\ held' = (IF replaces THEN e.sol.decs ELSE held)
     /\ devs' = Add(devs, Tag(e.lb_after # S2.bestLb \/ e.val_after # S2.bestLb, "C14 set-primal-value")
                          \* replaced only when strictly greater: on an equal (or smaller) value the earlier solution stays
                          \cup Tag(e.sol_after.decs # held', "C14 set-primal-solution"))
  /\ UNCHANGED <<I, HT, cfg, cur, compiledCur, inp, res, baseRet, prevRet, skipOK, store, ever, pendW>>

\* ------------------------------------------------------------------ fringe (C11 in situ) and the solver's use of it
LenTags(its) == Tag(FLen(its) # Rec[l].len, "C11 len")
\* ---- C09, threshold soundness.  A threshold (d, q) -> theta recorded by a compilation (or at a pop) claims that reaching q at depth d
\* with a value <= theta (< theta when the entry is not marked explored) is useless.  That is the case iff every completion of q from
\* such a value is worth no more than the incumbent, or runs through a sub-problem that was put on the fringe with at least the value
\* this completion reaches it with (that node, or what replaced it, covers the completion).  Judged at the next pop, when the cut-set of
\* the diagram that wrote the threshold has been enqueued.  Static variable order, no long arcs, no dominance checker.
Monitored == cfg.cache /\ ~cfg.dom /\ Full /\ cfg.cut_at = 0 /\ StaticOrder(I) /\ ~I.long_arcs
RECURSIVE Useless(_, _, _, _)
Useless(d, q, a, lb) ==
  IF Plus(a, HStar(I, HT, d, q)) <= lb THEN TRUE
  ELSE IF <<d, q>> \in DOMAIN ever /\ a <= ever[<<d, q>>] THEN TRUE
  ELSE IF d >= I.n THEN FALSE
  ELSE \A x \in DomQ(I, d, q) : Useless(d + 1, TrQ(I, d, q, x), Plus(a, CoQ(I, d, q, x)), lb)
ThresholdTags(lb) == Tag(Monitored /\ \E w \in pendW : ~Useless(w.d, w.q, IF w.e THEN w.v ELSE w.v - 1, lb), "C09 unsound-threshold")
TCInit == Ev("cinit") /\ UNCHANGED <<I, HT, cfg, S, cur, compiledCur, inp, res, baseRet, prevRet, primalMax, held, skipOK, store, devs, ever, pendW>>
TPush ==
  /\ Ev("push")
  /\ LET sp == SP(Rec[l].node)
         f2 == FPush(cfg.fringe, S.fringe, Item(sp))
         grow == FLen(f2) - FLen(S.fringe) IN
     /\ S' = [S EXCEPT !.fringe = f2, !.open = IF sp.depth \in DOMAIN S.open THEN [S.open EXCEPT ![sp.depth] = @ + grow] ELSE [d \in 0..I.n |-> IF d = sp.depth THEN 1 ELSE 0]]
     /\ devs' = Add(devs, LenTags(f2))
     /\ ever' = (LET k == <<sp.depth, Q(I, sp.st)>> IN
                 [j \in (DOMAIN ever) \cup {k} |-> IF j = k THEN (IF k \in DOMAIN ever THEN Max2(ever[k], sp.value) ELSE sp.value) ELSE ever[j]])
  /\ UNCHANGED <<I, HT, cfg, cur, compiledCur, inp, res, baseRet, prevRet, primalMax, held, skipOK, store, pendW>>
\* C09: some optimal solution is still reachable through an open node that neither its bound nor the cache discards
Live(n, lb, table) == SpOpt(I, HT, n) = Opt(I, HT) /\ n.ub > lb /\ (~cfg.cache \/ MustExplore(table, n))
RouteTags(S1, popped) ==
  Tag(cfg.cache /\ S1.bestLb < Opt(I, HT)
      /\ ~Live(popped, S1.bestLb, S1.table)
      /\ ~\E x \in BagToSet(S1.fringe) : Live([st |-> x.st, depth |-> x.depth, value |-> x.value, ub |-> x.ub], S1.bestLb, S1.table),
      "C09 last-route-discarded")
SkipTags == Tag(cur # None /\ ~compiledCur /\ ~skipOK, "DIV node-dropped-without-reason")
TPop ==
  /\ Ev("pop")
  /\ LET sp == SP(Rec[l].node)
         S1 == S          \* cache layers are cleared by the logged clear_layer events themselves
         cands == {x \in Poppable(S1.fringe) : Matches(sp, x)}
         same == {x \in BagToSet(S1.fringe) : x.st = sp.st /\ x.depth = sp.depth}
         x == IF cands # {} THEN CHOOSE y \in cands : TRUE ELSE IF same # {} THEN CHOOSE y \in same : TRUE ELSE Item(sp)
         S2 == IF cands # {} \/ same # {} THEN SPop(S1, x) ELSE [S1 EXCEPT !.bestUb = sp.ub] IN
     /\ S' = S2
     /\ cur' = sp /\ compiledCur' = FALSE /\ skipOK' = SSkips(S2, sp, cfg.cache)
     /\ devs' = Add(devs, LenTags(S2.fringe) \cup SkipTags
                          \cup Tag(cands = {}, IF \E y \in BagToSet(S1.fringe) : Matches(sp, y) THEN "C11 pop-not-max"
                                               ELSE IF same # {} THEN "C11 pop-altered-item" ELSE "C11 pop-invented")
                          \cup RouteTags(S2, sp) \cup ThresholdTags(S.bestLb))
  /\ pendW' = {}
  /\ UNCHANGED <<I, HT, cfg, inp, res, baseRet, prevRet, primalMax, held, store, ever>>
TPopNone == Ev("pop_none") /\ devs' = Add(devs, Tag(S.fringe # EmptyBag, "C11 lost-items") \cup ThresholdTags(S.bestLb)) /\ pendW' = {}
            /\ UNCHANGED <<I, HT, cfg, S, cur, compiledCur, inp, res, baseRet, prevRet, primalMax, held, skipOK, store, ever>>
\* emptying the fringe while it holds a node whose bound exceeds the incumbent (and no cutoff is involved) throws away a part of the
\* search space that may hold the optimum
TFClear == /\ Ev("fclear") /\ S' = [S EXCEPT !.fringe = EmptyBag]
           /\ devs' = Add(devs, Tag(cfg.cut_at = 0 /\ \E x \in BagToSet(S.fringe) : x.ub > S.bestLb, IF I.long_arcs THEN "C15 open-nodes-discarded" ELSE "C01 open-nodes-discarded"))
           /\ UNCHANGED <<I, HT, cfg, cur, compiledCur, inp, res, baseRet, prevRet, primalMax, held, skipOK, store, ever, pendW>>

\* ------------------------------------------------------------------ cache (C18 in situ); an EmptyCache run ignores updates
TCGet ==
  /\ Ev("cget")
  /\ LET e == Rec[l]  exp == IF cfg.cache THEN CGet(S.table, e.depth, e.st) ELSE NoTh  got == <<e.ret[1], e.ret[2]>> IN
     /\ devs' = Add(devs, Tag(got # exp, "C18 read"))
     /\ S' = (IF got = exp \/ ~cfg.cache THEN S
              ELSE IF got = NoTh THEN [S EXCEPT !.table = [k \in (DOMAIN S.table) \ {<<e.depth, e.st>>} |-> S.table[k]]]
              ELSE [S EXCEPT !.table = [k \in (DOMAIN S.table) \cup {<<e.depth, e.st>>} |-> IF k = <<e.depth, e.st>> THEN got ELSE S.table[k]]])
  /\ UNCHANGED <<I, HT, cfg, cur, compiledCur, inp, res, baseRet, prevRet, primalMax, held, skipOK, store, ever, pendW>>
TCUpd == /\ Ev("cupd")
         /\ LET e == Rec[l] IN
              /\ S' = (IF cfg.cache THEN [S EXCEPT !.table = CUpd(S.table, e.depth, e.st, <<e.value, e.explored>>)] ELSE S)
              /\ pendW' = (IF Monitored THEN pendW \cup {[d |-> e.depth, q |-> Q(I, e.st), v |-> e.value, e |-> e.explored]} ELSE pendW)
         /\ UNCHANGED <<I, HT, cfg, cur, compiledCur, inp, res, baseRet, prevRet, primalMax, held, skipOK, store, devs, ever>>
TCClearLayer == /\ Ev("cclear_layer") /\ S' = [S EXCEPT !.table = CClearLayer(S.table, Rec[l].depth)]
                /\ UNCHANGED <<I, HT, cfg, cur, compiledCur, inp, res, baseRet, prevRet, primalMax, held, skipOK, store, devs, ever, pendW>>
TCClear == /\ Ev("cclear") /\ S' = [S EXCEPT !.table = CEmpty]
           /\ UNCHANGED <<I, HT, cfg, cur, compiledCur, inp, res, baseRet, prevRet, primalMax, held, skipOK, store, devs, ever, pendW>>
\* dominance store (C10 in situ): every query of the run against DominanceStore.tla with the model's rule
TDQuery ==
  /\ Ev("dquery")
  /\ LET e == Rec[l]  c == DomCoords(I, e.st)  k == DomKey(I, e.st)
         front == DFront(store, e.depth, k)
         exp == k # NoDKey /\ IsDominated(front, c, e.value, TRUE) IN
     /\ devs' = Add(devs, Tag(e.dominated # exp, "C10 verdict") \cup Tag(e.dominated /\ exp /\ ~ThresholdSound(front, c, e.value, e.threshold, TRUE), "C10 threshold"))
     /\ store' = (IF e.dominated \/ k = NoDKey THEN store ELSE DSet(store, e.depth, k, DInsert(front, c, e.value, TRUE)))
  /\ UNCHANGED <<I, HT, cfg, S, cur, compiledCur, inp, res, baseRet, prevRet, primalMax, held, skipOK, ever, pendW>>
TDom == /\ (Ev("dclear_layer") \/ Ev("poll"))
        /\ UNCHANGED <<I, HT, cfg, S, cur, compiledCur, inp, res, baseRet, prevRet, primalMax, held, skipOK, store, devs, ever, pendW>>

\* ------------------------------------------------------------------ compilations
TCompile ==
  /\ Ev("compile")
  /\ LET e == Rec[l]  i == [type |-> e.type, width |-> e.width, root |-> SP(e.root), best_lb |-> e.best_lb] IN
     /\ inp' = i /\ res' = None /\ compiledCur' = TRUE
     /\ devs' = Add(devs, Tag(cur = None \/ i.root # cur, "DIV compiled-node-is-not-the-popped-one")
                          \cup Tag(e.best_lb # S.bestLb, "DIV incumbent-handed-to-compilation")
                          \cup Tag(cur # None /\ skipOK /\ e.type = "restricted", "DIV node-should-have-been-skipped"))
  /\ UNCHANGED <<I, HT, cfg, S, cur, baseRet, prevRet, primalMax, held, skipOK, store, ever, pendW>>
TCompiled ==
  /\ Ev("compiled")
  /\ LET e == Rec[l]
         r == IF e.ok THEN [ok |-> TRUE, exact |-> e.exact, bv |-> e.bv, bev |-> e.bev, bsol |-> e.bsol, besol |-> e.besol] ELSE [ok |-> FALSE] IN
     /\ res' = r
     /\ S' = (IF e.ok THEN SUpdate(S, e.bev) ELSE S)
     /\ devs' = Add(devs, (IF Isolated THEN CompileTags(I, HT, inp, r)
                           \* with shared stores only the primal side is unconditional: what is offered as incumbent must be feasible
                           ELSE IF e.ok THEN Tag(e.besol.some /\ ~FeasibleSolution(I, e.besol.decs, e.bev), "C02 incumbent-candidate-infeasible") ELSE {})
                          \* a candidate that improves on the incumbent IS the solution the solver holds from now on (and returns if cut off next)
                          \cup Tag(e.ok /\ e.bev > S.bestLb /\ e.besol.some /\ ~FeasibleSolution(I, e.besol.decs, e.bev), "C02 infeasible-solution-adopted"))
  /\ UNCHANGED <<I, HT, cfg, cur, compiledCur, inp, baseRet, prevRet, primalMax, held, skipOK, store, ever, pendW>>
TCutset ==
  /\ Ev("cutset")
  /\ LET cs == {SP(Rec[l].nodes[i]) : i \in DOMAIN Rec[l].nodes} IN
     devs' = Add(devs, (IF Isolated  THEN CutsetTags(I, HT, inp, res, cs) ELSE {})
                       \cup Tag(\E c \in cs : ~ExactSubProblem(I, c), "C08 node-not-exact"))
  /\ UNCHANGED <<I, HT, cfg, S, cur, compiledCur, inp, res, baseRet, prevRet, primalMax, held, skipOK, store, ever, pendW>>

\* ------------------------------------------------------------------ outcome
Sig(r) == IF cfg.dd = "pooled" /\ I.long_arcs /\ (r.root_in_cutset \/ r.watchdog) THEN "D5" ELSE "-"
RetTags(r) ==
  LET opt == Opt(I, HT)
      cut == cfg.cut_at # 0
      val == IF r.has_value THEN r.best_value ELSE NegInf
      goal == Max2(opt, primalMax)
      own == r.has_value /\ (primalMax = NegInf \/ val > primalMax)        \* found by the solver itself
      P(t) == IF I.long_arcs THEN "C15 " \o t ELSE "C01 " \o t
  IN Tag(r.panicked, IF cut THEN "C05 panic" ELSE P("panic"))
     \* a crash of a run that uses the dominance checker / the cache is also the business of C10 / C09 (their checks pair such runs with runs without)
     \cup Tag(r.panicked /\ cfg.dom, "C10 panic") \cup Tag(r.panicked /\ cfg.cache /\ ~cfg.dom, "C09 panic")
     \cup (IF r.panicked THEN {} ELSE
        \* C02: value / solution / bounds / Completion agree
           Tag(r.has_value # r.sol.some, "C02 solution-iff-value")
      \cup Tag(r.has_value /\ (r.best_value # r.best_lb \/ r.cval # r.best_value), "C02 value-lb-completion-differ")
      \cup Tag(~r.has_value /\ ~IsNegInf(r.cval), "C02 value-lb-completion-differ")
      \cup Tag(own /\ ~FeasibleSolution(I, r.sol.decs, val), "C02 solution-infeasible-or-wrong-value")
      \cup Tag(~cut /\ ~r.watchdog /\ r.has_value /\ r.best_ub # val, "C02 upper-bound-after-complete-run")
        \* C01 / C15 / C14: uninterrupted run
      \cup Tag(~cut /\ r.watchdog, P("non-termination"))
      \cup Tag(~cut /\ ~r.watchdog /\ ~r.is_exact, P("not-exact"))
      \cup Tag(~cut /\ ~r.watchdog /\ cfg.nprimal = 0 /\ val # opt, P("wrong-optimum"))
      \cup Tag(~cut /\ ~r.watchdog /\ cfg.nprimal > 0 /\ (val # goal \/ ~r.is_exact), "C14 final-value-with-warm-start")
        \* C05: interrupted run
      \cup Tag(cut /\ ~(r.best_lb <= opt /\ opt <= r.best_ub), "C05 bounds-unsound")
      \cup Tag(cut /\ r.has_value /\ ~FeasibleSolution(I, r.sol.decs, r.best_lb), "C05 solution-infeasible")
      \cup Tag(cut /\ r.is_exact /\ val # opt, "C05 exact-claim-wrong")
        \* C19: monotone in the cutoff index; exact with tight bounds from the last index on
      \cup Tag(cut /\ prevRet # None /\ (r.best_lb < prevRet.best_lb \/ r.best_ub > prevRet.best_ub), "C19 not-monotone")
      \cup Tag(cut /\ cfg.last /\ ~(r.is_exact /\ r.best_lb = opt /\ r.best_ub = opt), "C19 never-exact")
        \* paired runs: C09 / C10 / C15 same answer as the base run
      \cup Tag(cfg.role = "variant" /\ baseRet # None /\ cfg.cache /\ ~I.long_arcs /\ (val # baseRet.val \/ r.is_exact # baseRet.is_exact), "C09 differs-from-non-caching")
      \cup Tag(cfg.role = "variant" /\ baseRet # None /\ cfg.dom /\ (val # baseRet.val \/ r.is_exact # baseRet.is_exact), "C10 differs-without-dominance")
      \cup Tag(cfg.role = "variant" /\ baseRet # None /\ I.long_arcs /\ (val # baseRet.val \/ r.is_exact # baseRet.is_exact), "C15 pooled-differs-from-plain")
        \* C17 on the bounds of real runs
      \cup GapTags([lb_rank |-> 0, ub_rank |-> IF r.best_lb = r.best_ub THEN 0 ELSE 1,
                    lb_sign |-> IF r.best_lb > 0 THEN 1 ELSE IF r.best_lb < 0 THEN -1 ELSE 0, ub_sign |-> IF r.best_ub > 0 THEN 1 ELSE IF r.best_ub < 0 THEN -1 ELSE 0,
                    lb_inf |-> IsNegInf(r.best_lb), ub_inf |-> IsPosInf(r.best_ub),
                    nan |-> r.gap.nan, neg |-> r.gap.neg, zero |-> r.gap.zero, one |-> r.gap.one, le1 |-> r.gap.le1]))
TReturn ==
  /\ Ev("return")
  /\ LET r == Rec[l]
         val == IF r.has_value THEN r.best_value ELSE NegInf
         endTags == IF Full /\ ~r.panicked /\ cfg.cut_at = 0
                    THEN Tag(S.fringe # EmptyBag, "DIV returned-with-open-nodes") \cup SkipTags \cup Tag(S.bestLb # r.best_lb, "DIV incumbent-differs-from-trace")
                    ELSE {} IN
     /\ devs' = (IF Cardinality(devs) < 60 THEN devs \cup {<<t, l, cfg.run, Sig(r)>> : t \in RetTags(r) \cup endTags \cup (IF r.panicked THEN {} ELSE ThresholdTags(S.bestLb))} ELSE devs)
     /\ baseRet' = (IF cfg.role = "base" THEN [val |-> val, is_exact |-> r.is_exact] ELSE baseRet)
     /\ prevRet' = (IF cfg.role = "cut" THEN [best_lb |-> r.best_lb, best_ub |-> r.best_ub] ELSE None)
  /\ pendW' = {}
  /\ UNCHANGED <<I, HT, cfg, S, cur, compiledCur, inp, res, primalMax, held, skipOK, store, ever>>

Next == TReset \/ TPrimal \/ TCInit \/ TPush \/ TPop \/ TPopNone \/ TFClear \/ TCGet \/ TCUpd \/ TCClearLayer \/ TCClear \/ TDom \/ TDQuery
        \/ TCompile \/ TCompiled \/ TCutset \/ TReturn
Spec == Init /\ [][Next]_vars
Report == l = Len(Rec) + 1 => PrintT(<<"RESULT", ToJson([total |-> Len(Rec), devs |-> devs])>>)
Accepted == TLCGet("stats").diameter - 1 = Len(Rec)
=============================================================================
