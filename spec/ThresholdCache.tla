--------------------------- MODULE ThresholdCache ---------------------------
(* Sequential specification of the threshold cache (abstraction/cache.rs, cache/simple.rs),    *)
(* as pure operators over a table  <<depth, state>> -> <<value, explored>>.                    *)
EXTENDS Integers, Sequences, FiniteSets, TLC
NoTh == <<-1000001, FALSE>>                         \* "no threshold recorded" (uniform shape for TLC)
CGet(t, d, s) == IF <<d, s>> \in DOMAIN t THEN t[<<d, s>>] ELSE NoTh
\* (value, explored) lexicographic order, FALSE < TRUE
ThLess(a, b) == a[1] < b[1] \/ (a[1] = b[1] /\ ~a[2] /\ b[2])
ThMax(a, b) == IF ThLess(a, b) THEN b ELSE a
CUpd(t, d, s, x) == LET k == <<d, s>> IN
                    [j \in (DOMAIN t) \cup {k} |-> IF j = k THEN (IF k \in DOMAIN t THEN ThMax(t[k], x) ELSE x) ELSE t[j]]
CClearLayer(t, d) == [k \in {j \in DOMAIN t : j[1] # d} |-> t[k]]
CEmpty == <<>>
\* Cache::must_explore (default method of the trait)
MustExplore(t, sp) == LET th == CGet(t, sp.depth, sp.st) IN
                      th = NoTh \/ sp.value > th[1] \/ (sp.value = th[1] /\ ~th[2])
=============================================================================
