--------------------------- MODULE DominanceStore ---------------------------
(* Sequential specification of the dominance checker (dominance/simple.rs with the default     *)
(* partial_cmp / cmp of abstraction/dominance.rs): Pareto-front semantics, as pure operators.  *)
(* An entry is [c |-> sequence of coordinates, v |-> value]; a front is a set of entries;      *)
(* the store is a function <<depth, key>> -> front.                                            *)
EXTENDS Integers, Sequences, FiniteSets, TLC
DomGE(ca, cb) == \A i \in 1..Len(ca) : ca[i] >= cb[i]
\* a (with value va) dominates b (with value vb): at least as good everywhere, strictly better somewhere
Dominates(ca, va, cb, vb, uv) == /\ DomGE(ca, cb) /\ (uv => va >= vb)
                                 /\ ((\E i \in 1..Len(ca) : ca[i] > cb[i]) \/ (uv /\ va > vb))
IsDominated(front, c, v, uv) == \E e \in front : Dominates(e.c, e.v, c, v, uv)
Entry(c, v, uv) == [c |-> c, v |-> IF uv THEN v ELSE 0]      \* without values the value plays no role
DInsert(front, c, v, uv) == {e \in front : ~Dominates(c, v, e.c, e.v, uv)} \cup {Entry(c, v, uv)}
DFront(store, d, k) == IF <<d, k>> \in DOMAIN store THEN store[<<d, k>>] ELSE {}
DSet(store, d, k, f) == [j \in (DOMAIN store) \cup {<<d, k>>} |-> IF j = <<d, k>> THEN f ELSE store[j]]
\* is_dominated_or_insert: verdict and next store.  NoDKey: Dominance::get_key returned None -- the state takes no part in the
\* dominance relation: it is never dominated and never recorded
NoDKey == -1
DVerdict(store, d, k, c, v, uv) == k # NoDKey /\ IsDominated(DFront(store, d, k), c, v, uv)
DQuery(store, d, k, c, v, uv) == IF k = NoDKey \/ DVerdict(store, d, k, c, v, uv) THEN store
                                 ELSE DSet(store, d, k, DInsert(DFront(store, d, k), c, v, uv))
DClearLayer(store, d) == [j \in {x \in DOMAIN store : x[1] # d} |-> store[j]]
\* C10: a threshold returned with a dominated verdict is sound and at least the presented value
ThresholdSound(front, c, v, th, uv) == th >= v /\ IsDominated(front, c, th, uv)
Antichain(front, uv) == \A a, b \in front : a # b => ~Dominates(a.c, a.v, b.c, b.v, uv)
\* the sorting comparator (Dominance::cmp): value first when used, then coordinates, lexicographically
RECURSIVE LexCmp(_, _, _)
LexCmp(ca, cb, i) == IF i > Len(ca) THEN 0 ELSE IF ca[i] < cb[i] THEN -1 ELSE IF ca[i] > cb[i] THEN 1 ELSE LexCmp(ca, cb, i + 1)
=============================================================================
