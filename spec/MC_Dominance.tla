---------------------------- MODULE MC_Dominance ----------------------------
EXTENDS DominanceStore
CONSTANTS Coords, Values, Keys, UseValue, MaxOps, Hist
VARIABLES store, nops, seen, last     \* seen: every <<k, c, v>> ever presented and not dominated at that time (history)
vars == <<store, nops, seen, last>>
Pairs == {<<a, b>> : a \in Coords, b \in Coords}
Init == store = <<>> /\ nops = 0 /\ seen = {} /\ last = <<>>
Tick == nops' = IF Hist THEN nops + 1 ELSE 0
Query(k, c, v) == /\ nops < MaxOps
                  /\ store' = DQuery(store, 0, k, c, v, UseValue)
                  /\ last' = (IF Hist THEN <<k, c, v, DVerdict(store, 0, k, c, v, UseValue)>> ELSE last)
                  /\ seen' = (IF Hist /\ ~DVerdict(store, 0, k, c, v, UseValue) THEN seen \cup {<<k, c, IF UseValue THEN v ELSE 0>>} ELSE seen)
                  /\ Tick
Next == \E k \in Keys, c \in Pairs, v \in Values : Query(k, c, v)
Spec == Init /\ [][Next]_vars
C10_Front == \A j \in DOMAIN store : Antichain(store[j], UseValue)
\* the front is exactly the Pareto front of everything recorded: nothing recorded is lost unless dominated
\* or superseded by an equal entry, and everything in the front was recorded
C10_Pareto == Hist => \A k \in Keys :
                 LET rec == {[c |-> s[2], v |-> s[3]] : s \in {x \in seen : x[1] = k}}
                     front == DFront(store, 0, k) IN
                 /\ front \subseteq rec
                 /\ \A e \in rec : e \in front \/ \E f \in front : Dominates(f.c, f.v, e.c, e.v, UseValue)
C10_VerdictMonotone == Hist /\ last # <<>> /\ last[4] => \E s \in seen : s[1] = last[1] /\ Dominates(s[2], s[3], last[2], last[3], UseValue)
=============================================================================
