---- MODULE ParCounters5 ----
EXTENDS ParCounters
\* @type: () => Bool;
ConstInit == Workers = {"w1", "w2", "w3", "w4", "w5"}
====
