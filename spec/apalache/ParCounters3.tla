---- MODULE ParCounters3 ----
EXTENDS ParCounters
\* @type: () => Bool;
ConstInit == Workers = {"w1", "w2", "w3"}
====
