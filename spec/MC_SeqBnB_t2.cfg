SPECIFICATION Spec
CONSTANTS TreeId = 2 MaxPolls = 8 PrimalVals = {3,7}
INVARIANTS C01_Optimal C05_BoundsSound C05_ExactTruthful C19_Eventually Acc_Open
PROPERTIES C01_Terminates C19_Monotone PopsNonIncreasing
