------------------------------- MODULE TraceLin -------------------------------
(* C18, concurrent part: linearisability of real-thread histories of SimpleCache and            *)
(* SimpleDominanceChecker.  Every call is logged as an invocation and a response (stamped by one *)
(* global atomic counter = real-time order); between them an internal Lin step applies the       *)
(* sequential specification.  TLC searches for a linearisation (depth-first queue).  The         *)
(* furthest line reached is kept in a TLC register because Lin steps make the diameter useless.  *)
EXTENDS ThresholdCache, DominanceStore, Json, IOUtils
Rec == ndJsonDeserialize(IOEnv.TRACE)
VARIABLES l, table, store, uv, pend
vars == <<l, table, store, uv, pend>>
Init == TLCSet(1, 1) /\ l = 1 /\ table = CEmpty /\ store = <<>> /\ uv = TRUE /\ pend = <<>>
Ev(e) == l <= Len(Rec) /\ Rec[l].ev = e /\ l' = l + 1
TReset == Ev("reset") /\ pend = <<>> /\ table' = CEmpty /\ store' = <<>> /\ uv' = Rec[l].uv /\ pend' = <<>>
\* clear_layer is DashMap::clear: the shards are emptied one after the other, each under its own lock, so the layer is NOT cleared
\* atomically -- every key of the layer is removed at its own instant between the invocation and the response (C18 asks for
\* atomicity of the operations on one key; the solvers never clear a layer that is still being written)
StKeys == {Rec[i].st : i \in {j \in DOMAIN Rec : Rec[j].ev = "inv" /\ Rec[j].op \in {"cupd", "cget"}}}
CClearKey(t, d, k) == [j \in (DOMAIN t) \ {<<d, k>>} |-> t[j]]
TInv == Ev("inv") /\ LET e == Rec[l]  isClear == e.op = "cclear_layer" IN
           pend' = [t \in (DOMAIN pend) \cup {e.t} |-> IF t = e.t THEN [op |-> e, done |-> isClear /\ StKeys = {}, r |-> <<>>, left |-> IF isClear THEN StKeys ELSE {}] ELSE pend[t]]
        /\ UNCHANGED <<table, store, uv>>
\* result shapes: cache get -> <<value, explored>> ; cache upd -> <<>> ; dominance query -> <<dominated, threshold-sound>>
Lin == /\ l <= Len(Rec) /\ Rec[l].ev = "res"                       \* only useful right before a response is due
       /\ \E t \in DOMAIN pend : /\ ~pend[t].done
             /\ LET o == pend[t].op IN
                CASE o.op = "cupd" -> /\ table' = CUpd(table, o.depth, o.st, <<o.value, o.explored>>) /\ store' = store
                                      /\ pend' = [pend EXCEPT ![t].done = TRUE]
                  [] o.op = "cget" -> /\ table' = table /\ store' = store
                                      /\ pend' = [pend EXCEPT ![t].done = TRUE, ![t].r = CGet(table, o.depth, o.st)]
                  [] o.op = "cclear_layer" -> \E k \in pend[t].left :
                                      /\ table' = CClearKey(table, o.depth, k) /\ store' = store
                                      /\ pend' = [pend EXCEPT ![t].left = @ \ {k}, ![t].done = (pend[t].left = {k})]
                  [] o.op = "dquery" -> LET front == DFront(store, o.depth, o.key)  dom == IsDominated(front, o.c, o.value, uv) IN
                                        /\ store' = (IF dom THEN store ELSE DSet(store, o.depth, o.key, DInsert(front, o.c, o.value, uv)))
                                        /\ table' = table
                                        /\ pend' = [pend EXCEPT ![t].done = TRUE, ![t].r = <<dom, front>>]
       /\ UNCHANGED <<l, uv>>
TRes == Ev("res") /\ LET e == Rec[l] IN
          /\ e.t \in DOMAIN pend /\ pend[e.t].done
          /\ LET o == pend[e.t].op  r == pend[e.t].r IN
             CASE o.op = "cget" -> r = <<e.ret[1], e.ret[2]>>
               [] o.op = "dquery" -> r[1] = e.dominated /\ (e.dominated => ThresholdSound(r[2], o.c, o.value, e.threshold, uv))
               [] OTHER -> TRUE
          /\ pend' = [t \in (DOMAIN pend) \ {e.t} |-> pend[t]] /\ UNCHANGED <<table, store, uv>>
Next == TReset \/ TInv \/ Lin \/ TRes
Spec == Init /\ [][Next]_vars
Far == IF l > TLCGet(1) THEN TLCSet(1, l) ELSE TRUE
Accepted == /\ PrintT(<<"RESULT", ToJson([total |-> Len(Rec), furthest |-> TLCGet(1) - 1])>>) /\ TLCGet(1) - 1 = Len(Rec)
=============================================================================
