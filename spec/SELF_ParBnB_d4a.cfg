SPECIFICATION Spec
CONSTANTS NSpawn = 2 TreeId = 1 Det = TRUE WithCutoff = TRUE Variant = "d4a"
INVARIANTS C03_Optimal C05_BoundsSound C05_ExactTruthful C04_NeverWaitWhenIdle
PROPERTIES C04_CompleteOnlyWhenIdle C04_Termination
