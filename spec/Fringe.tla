------------------------------- MODULE Fringe -------------------------------
(* Sequential specification of the solver fringe (abstraction/fringe.rs; SimpleFringe and      *)
(* NoDupFringe used with the MaxUB ranking).  Written as pure operators over a bag so that the *)
(* solver specifications (SeqBnB, ParBnB) and the trace specifications re-use them verbatim.   *)
(*                                                                                             *)
(* An item is a record [st, depth, value, ub, paths]: `paths` is the SET of paths that the     *)
(* item may legitimately carry -- a singleton except when the duplicate-free fringe coalesced  *)
(* two entries of equal value, where C11 leaves the survivor's path free.                      *)
EXTENDS Integers, Sequences, FiniteSets, Bags, TLC

Better(a, b) == a.ub > b.ub \/ (a.ub = b.ub /\ a.value > b.value)
IsMax(x, items) == \A y \in BagToSet(items) : ~Better(y, x)
SameSP(a, b) == a.st = b.st /\ a.depth = b.depth
FMax2(a, b) == IF a >= b THEN a ELSE b
Item(sp) == [st |-> sp.st, depth |-> sp.depth, value |-> sp.value, ub |-> sp.ub, paths |-> {sp.path}]

FPush(kind, items, x) ==                      \* x is an Item
  IF kind = "simple" THEN items (+) SetToBag({x})
  ELSE LET twins == {e \in BagToSet(items) : SameSP(e, x)} IN
       IF twins = {} THEN items (+) SetToBag({x})
       ELSE LET e == CHOOSE t \in twins : TRUE
                ub == FMax2(e.ub, x.ub)
                rest == items (-) SetToBag({e})
                surv == IF x.value > e.value THEN [x EXCEPT !.ub = ub]
                        ELSE IF x.value < e.value THEN [e EXCEPT !.ub = ub]
                        ELSE [e EXCEPT !.ub = ub, !.paths = e.paths \cup x.paths]
            IN rest (+) SetToBag({surv})
\* the items a pop may return: maximal for (ub, value)
Poppable(items) == {x \in BagToSet(items) : IsMax(x, items)}
FPop(items, x) == items (-) SetToBag({x})
FLen(items) == BagCardinality(items)
\* does the concrete sub-problem sp (with a single path) match the abstract item x ?
Matches(sp, x) == sp.st = x.st /\ sp.depth = x.depth /\ sp.value = x.value /\ sp.ub = x.ub /\ sp.path \in x.paths
NoDupInv(items) == \A a, b \in BagToSet(items) : (SameSP(a, b) => a = b) /\ CopiesIn(a, items) = 1
=============================================================================
