------------------------------ MODULE DDPooled ------------------------------
(* The compilation loop of mdd/pooled.rs on top of DD.tla (initialisation, finalisation, cut-set, *)
(* local bounds and thresholds are shared: the pooled diagram always uses the frontier cut-set).   *)
(* Differences modelled here: the pool (`nextL`) keeps the nodes that the current variable does    *)
(* not impact (long arcs); a layer is recorded only when some node is expanded; the guard of       *)
(* relaxation counts recorded layers; a transition whose target state is waiting in the pool       *)
(* re-uses that node (value, best arc and exactness updated in place).                             *)
(* TLC checks it against DDContract on long-arc models.  D5 (the compiled sub-problem itself      *)
(* handed out by the frontier cut-set when a child of the root lingers in the pool and is merged   *)
(* or re-used by an inexact parent) was repaired in /repo: drain_cutset now replaces the root by   *)
(* its children that are not exact nodes of the diagram (`rootE`, `DrainedCs`).  With              *)
(* Repaired = FALSE the model is the code before the repair and MC_DDPooled_D5.cfg reproduces the  *)
(* defect as a counterexample of C08_Progress on the specification alone.                          *)
EXTENDS DD
CONSTANT Repaired
VARIABLES dcur,               \* curr_l: the layer / variable index of the next iteration
          rootE               \* root_edges: the arcs created by the expansion of the root
pvars == <<vars, dcur, rootE>>
RootKey == KeyN(1, inp.q0)
PInit == Init /\ dcur = 0 /\ rootE = {}
PPick == Pick /\ dcur' = inp'.root.depth /\ rootE' = {}
\* expansion of `exp` at depth d; `rest` = pool nodes not expanded now, re-used as targets when their state is reached
PExpand(nds, exp, d, rest) ==
   LET live == {k \in exp : Plus(nds[k].val, RubOf(I, HT, d, nds[k].q)) > inp.best_lb}
       Tgt(T) == IF \E r \in rest : nds[r].q = T THEN CHOOSE r \in rest : nds[r].q = T ELSE KeyN(d + 2, T)
       okE == UNION {{[from |-> k, to |-> Tgt(TrQ(I, d, nds[k].q, a)), dec |-> <<d, a>>, cost |-> CoQ(I, d, nds[k].q, a)] : a \in DomQ(I, d, nds[k].q)} : k \in live}
       tgt == {e.to : e \in okE}
       mk(t) == LET ins == {e \in okE : e.to = t}
                    v == Max({nds[e.from].val + e.cost : e \in ins})
                    allex == \A e \in ins : nds[e.from].ex /\ ~nds[e.from].rl
                    bestIn == CHOOSE e \in ins : nds[e.from].val + e.cost = v
                IN IF t \in rest
                   THEN IF v >= nds[t].val THEN [nds[t] EXCEPT !.val = v, !.ex = nds[t].ex /\ allex, !.best = bestIn]
                        ELSE [nds[t] EXCEPT !.ex = nds[t].ex /\ allex]
                   ELSE [NewNode(t[3], v, allex, d + 1) EXCEPT !.best = bestIn]
   IN [nodes |-> [k \in (DOMAIN nds) \cup tgt |-> IF k \in tgt THEN mk(k) ELSE IF k \in exp THEN [nds[k] EXCEPT !.rub = RubOf(I, HT, d, nds[k].q), !.dep = d] ELSE nds[k]],
       edges |-> okE, next |-> tgt \cup rest, count |-> Cardinality(live)]
PLayer ==
  /\ pc = "loop" /\ dcur < N /\ dcur' = dcur + 1
  /\ LET d == dcur
         pool == nextL
         moving == {k \in pool : Impacted(I, d, nodes[k].q)}
         rest == pool \ moving
         L == Len(layers) + 1
         pruned == IF Len(layers) = 0 THEN {} ELSE {k \in moving : CachedTh(d, nodes[k].q) # NoTh /\ nodes[k].val <= CachedTh(d, nodes[k].q)[1]}
         curr == moving \ pruned
         nodes0 == [k \in DOMAIN nodes |-> IF k \in pruned THEN [nodes[k] EXCEPT !.byC = TRUE, !.th = CachedTh(d, nodes[k].q)[1], !.dep = d]
                                           ELSE IF k \in moving THEN [nodes[k] EXCEPT !.dep = d] ELSE nodes[k]] IN
     IF pool = {} THEN /\ pc' = "fin" /\ UNCHANGED <<nodes, edges, layers, nextL, lel, maxExpanded, rootE>>                        \* `if self.pool.is_empty() { break }`
     ELSE IF moving = {} THEN /\ pc' = "loop" /\ UNCHANGED <<nodes, edges, layers, nextL, lel, maxExpanded, rootE>>                 \* nobody impacted: the whole pool skips the variable
     ELSE IF curr = {} THEN /\ layers' = Append(layers, moving) /\ nodes' = nodes0 /\ nextL' = rest /\ pc' = "loop" /\ maxExpanded' = Append(maxExpanded, 0) /\ UNCHANGED <<edges, lel, rootE>>
     ELSE
       \/ /\ \/ inp.type = "exact" \/ Cardinality(curr) <= inp.width \/ (inp.type = "relaxed" /\ Len(layers) < 2)
          /\ LET x == PExpand(nodes0, curr, d, rest) IN
             /\ nodes' = x.nodes /\ edges' = edges \cup x.edges /\ nextL' = x.next /\ maxExpanded' = Append(maxExpanded, x.count)
             /\ rootE' = rootE \cup {e \in x.edges : e.from = RootKey}
          /\ layers' = Append(layers, moving) /\ UNCHANGED lel /\ pc' = "loop"
       \/ /\ inp.type = "restricted" /\ Cardinality(curr) > inp.width
          /\ \E keep \in BestSubsets(curr, inp.width) :
               LET nd1 == [k \in DOMAIN nodes0 |-> IF k \in curr \ keep THEN [nodes0[k] EXCEPT !.del = TRUE] ELSE nodes0[k]]
                   x == PExpand(nd1, keep, d, rest) IN
               /\ nodes' = x.nodes /\ edges' = edges \cup x.edges /\ nextL' = x.next /\ maxExpanded' = Append(maxExpanded, x.count)
               /\ rootE' = rootE \cup {e \in x.edges : e.from = RootKey}
          /\ lel' = 1 /\ layers' = Append(layers, moving) /\ pc' = "loop"
       \/ /\ inp.type = "relaxed" /\ Cardinality(curr) > inp.width /\ Len(layers) >= 2
          /\ \E keep \in BestSubsets(curr, inp.width - 1) :
               LET drop == curr \ keep
                   ms == MergeQ({nodes[k].q : k \in drop})
                   rec == {k \in keep : nodes[k].q = ms}
                   mk == IF rec # {} THEN CHOOSE k \in rec : TRUE ELSE KeyM(d, ms)
                   redir == {[from |-> e.from, to |-> mk, dec |-> e.dec, cost |-> RelaxCost(I, d, nodes[e.to].q, ms, e.cost)] : e \in {f \in edges : f.to \in drop}}
                   allIn == (IF rec # {} THEN {e \in edges : e.to = mk} ELSE {}) \cup redir
                   mvNew == IF redir = {} THEN NegInf ELSE Max({nodes[e.from].val + e.cost : e \in redir})
                   keepsOld == rec # {} /\ nodes[mk].val > mvNew
                   mnode == [q |-> ms, val |-> IF keepsOld THEN nodes[mk].val ELSE mvNew, ex |-> FALSE, rl |-> TRUE, del |-> FALSE, rub |-> PosInf, dep |-> d, byC |-> FALSE, th |-> NoTheta,
                             best |-> IF keepsOld THEN nodes[mk].best ELSE IF redir = {} THEN NoEdge ELSE CHOOSE e \in redir : nodes[e.from].val + e.cost = mvNew]
                   saved == IF rec # {} THEN {CHOOSE k \in drop : \A j \in drop : ~NBetter(j, k)} ELSE {}
                   nd1 == [k \in (DOMAIN nodes0) \cup {mk} |-> IF k = mk THEN mnode ELSE IF k \in drop \ saved THEN [nodes0[k] EXCEPT !.del = TRUE] ELSE nodes0[k]]
                   expset == IF rec # {} THEN keep \cup saved ELSE keep \cup {mk}
                   x == PExpand(nd1, expset, d, rest) IN
               /\ nodes' = x.nodes /\ edges' = edges \cup redir \cup x.edges /\ nextL' = x.next /\ maxExpanded' = Append(maxExpanded, x.count)
               /\ rootE' = rootE \cup {e \in x.edges : e.from = RootKey}
               /\ layers' = Append(layers, moving \cup {mk})
          /\ lel' = 1 /\ pc' = "loop"
  /\ UNCHANGED <<ii, HT, inp, cut, res, cacheT>>
\* _finalize_layers: whatever is left in the pool forms the terminal layer and is given its index as depth
PEndLoop == /\ pc = "loop" /\ dcur = N /\ pc' = "fin"
            /\ nodes' = [k \in DOMAIN nodes |-> IF k \in nextL THEN [nodes[k] EXCEPT !.dep = dcur] ELSE nodes[k]]
            /\ UNCHANGED <<ii, HT, inp, cut, edges, layers, nextL, lel, res, maxExpanded, cacheT, dcur, rootE>>
PNext == PPick \/ PLayer \/ PEndLoop \/ (Finalize /\ UNCHANGED <<dcur, rootE>>) \/ (pc = "done" /\ UNCHANGED pvars)
PSpec == PInit /\ [][PNext]_pvars
\* _drain_cutset after the repair of D5: when the root is in its own cut-set it is replaced by those of its children that are not exact
\* nodes of this diagram (merged away, or made inexact by an inexact parent that re-used them), as exact sub-problems one decision deeper
IsRootRec(c) == c.depth = inp.root.depth /\ c.st = inp.root.st
DrainedCs == IF ~Repaired \/ ~\E c \in res.cs : IsRootRec(c) THEN res.cs
             ELSE LET rr == CHOOSE c \in res.cs : IsRootRec(c) IN
                  (res.cs \ {rr}) \cup
                  {[st |-> StOf(inp.root.depth + 1, nodes[e.to].q), depth |-> inp.root.depth + 1, value |-> inp.root.value + e.cost,
                    path |-> SetToSeq(RootPath \cup {e.dec}), ub |-> rr.ub] : e \in {f \in rootE : nodes[f.to].del \/ ~Exact(f.to)}}
D5Tags == {"C08 no-progress", "C08 not-covered"}
ContractButD5 == pc = "done" => CompileTags(I, HT, inp, res) = {} /\ (CutsetTags(I, HT, inp, res, DrainedCs) \ D5Tags) = {}
C08_Progress == pc = "done" => (CutsetTags(I, HT, inp, res, DrainedCs) \cap D5Tags) = {}
PContract == pc = "done" => CompileTags(I, HT, inp, res) = {} /\ CutsetTags(I, HT, inp, res, DrainedCs) = {}
\* spec -> impl (see DD!Emit): the outcome with the drained cut-set
PEmit == pc = "done" => PrintT(<<"OUT", ToJson([ii |-> ii, cut |-> cut, type |-> inp.type, width |-> inp.width, lb |-> inp.best_lb,
                                               root |-> [depth |-> inp.root.depth, x |-> inp.root.st.x, value |-> inp.root.value, path |-> inp.root.path],
                                               exact |-> res.exact, bv |-> res.bv, bev |-> res.bev, cs |-> {CsKey(c) : c \in DrainedCs},
                                               cu |-> {CuKey(u) : u \in res.cu}])>>)
=============================================================================
