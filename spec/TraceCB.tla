------------------------------- MODULE TraceCB -------------------------------
(* Callback-level trace validation of real compilations (engine `dd --callbacks --viz`):        *)
(*  C12  every call into user code (next_variable, for_each_in_domain, transition,              *)
(*       transition_cost, merge, relax) is checked against the protocol state: the current      *)
(*       layer, the variable selected for it, the arcs of this diagram and their costs, the     *)
(*       last merge; and against the model (DPModel): dst = Trans(src, d), d in Dom(var, src);  *)
(*  C13  the number of states expanded per layer against the maximum width;                     *)
(*  C20  every DOT drawing (64 configurations per diagram) against the diagram reconstructed    *)
(*       from the callbacks: node identities in creation order, arcs with decision and cost,    *)
(*       longest-path values, hidden (deleted) nodes, terminal node.                            *)
EXTENDS DDContract, Json, IOUtils
Rec == ndJsonDeserialize(IOEnv.TRACE)
VARIABLES l, I, HT, run, ddk, inp, D, devs
vars == <<l, I, HT, run, ddk, inp, D, devs>>
None == <<>>
Add(d, tags) == IF Cardinality(d) < 60 THEN d \cup {<<t, l, run, "-">> : t \in tags} ELSE d
SP(n) == [st |-> n.st, depth |-> n.depth, value |-> n.value, ub |-> n.ub, path |-> n.path]
\* D: the diagram as the callbacks reveal it
\*   nlayers   number of next_variable calls so far          var       variable selected for the current layer (-1 none)
\*   cur       state -> node id, the layer being expanded     pending   state -> node id, the nodes waiting for expansion (next layer / pool)
\*   nnodes    nodes created so far                           edges     set of [from, to, var, val, cost]
\*   arcs      set of [src, dec, dst, cost] created by transition_cost in this diagram (states)
\*   lastT     last transition call (awaiting its cost call)  merge     last merge [states, ret, id]
\*   expanded  domain calls in the current layer              val       node id -> longest path value
\*   layerOf   node id -> layer index (1 = root layer)        gone      ids merged away (deleted by relax)
\*   shown     node ids drawn when show_deleted = FALSE (None until seen)
D0 == [nlayers |-> 0, var |-> -1, cur |-> <<>>, pending |-> <<>>, nnodes |-> 0, edges |-> {}, arcs |-> {}, lastT |-> None, merge |-> None,
       expanded |-> 0, val |-> <<>>, layerOf |-> <<>>, gone |-> {}, nrecycled |-> 0, full |-> [n |-> -1, ids |-> {}, st |-> <<>>, edges |-> {}, term |-> {}], state |-> <<>>, over |-> FALSE, term |-> {}]
Init == l = 1 /\ I = None /\ HT = None /\ run = 0 /\ ddk = "lel" /\ inp = None /\ D = D0 /\ devs = {}
Ev(e) == l <= Len(Rec) /\ Rec[l].ev = e /\ l' = l + 1
F(e, f) == Rec[l].ev = e /\ Rec[l].f = f
Put(fn, k, v) == [x \in (DOMAIN fn) \cup {k} |-> IF x = k THEN v ELSE fn[x]]
Drop(fn, ks) == [x \in (DOMAIN fn) \ ks |-> fn[x]]
AllImpacted == ~I.long_arcs

TReset == /\ Ev("reset") /\ I' = Rec[l].inst /\ HT' = (IF Rec[l].inst = I THEN HT ELSE HTable(Rec[l].inst)) /\ run' = Rec[l].run /\ ddk' = Rec[l].dd
          /\ inp' = None /\ D' = D0 /\ UNCHANGED devs
TCompile == /\ Ev("compile")
            /\ LET e == Rec[l]  root == SP(e.root) IN
               /\ inp' = [type |-> e.type, width |-> e.width, root |-> root, best_lb |-> e.best_lb]
               /\ D' = [D0 EXCEPT !.pending = (root.st :> 0), !.nnodes = 1, !.val = (0 :> root.value), !.layerOf = (0 :> 0), !.state = (0 :> root.st)]
            /\ UNCHANGED <<I, HT, run, ddk, devs>>
\* ---- next_variable: closes the current layer, opens the next one
WidthTags ==
  Tag(AllImpacted /\ inp # None /\ D.nlayers >= 1 /\ D.expanded > inp.width
      /\ (inp.type = "restricted" \/ (inp.type = "relaxed" /\ D.nlayers >= 3)), "C13 width-exceeded")
TNextVar ==
  /\ Ev("cb") /\ Rec[l].f = "next_variable"
  /\ LET e == Rec[l]
         given == {e.states[i] : i \in DOMAIN e.states}
         \* the nodes that move into the layer: all pending ones (clean) / the impacted pending ones (pooled, long arcs)
         moving == IF e.ret < 0 THEN {} ELSE
                   {s \in DOMAIN D.pending : ddk # "pooled" \/ Impacted(I, e.ret, Q(I, s))} IN
     /\ devs' = Add(devs, WidthTags
                    \cup Tag(inp # None /\ e.depth # inp.root.depth + D.nlayers, "C12 next-variable-depth")
                    \cup Tag(given # DOMAIN D.pending, "DIV next-variable-states"))
     /\ D' = [D EXCEPT !.nlayers = D.nlayers + 1, !.var = e.ret, !.expanded = 0, !.merge = None, !.lastT = None,
                       !.cur = [s \in moving |-> D.pending[s]],
                       !.pending = Drop(D.pending, moving),
                       !.layerOf = [i \in DOMAIN D.layerOf |-> IF \E s \in moving : D.pending[s] = i THEN D.nlayers + 1 ELSE D.layerOf[i]],
                       !.term = IF e.ret < 0 THEN {D.pending[s] : s \in DOMAIN D.pending} ELSE {}]
  /\ UNCHANGED <<I, HT, run, ddk, inp>>
TDomain ==
  /\ Ev("cb") /\ Rec[l].f = "domain"
  /\ LET e == Rec[l] IN
     /\ devs' = Add(devs, Tag(e.var # D.var, "C12 domain-of-stale-variable") \cup Tag(e.st \notin DOMAIN D.cur, "C12 domain-of-state-outside-layer"))
     /\ D' = [D EXCEPT !.expanded = D.expanded + 1]
  /\ UNCHANGED <<I, HT, run, ddk, inp>>
TTransition ==
  /\ Ev("cb") /\ Rec[l].f = "transition"
  /\ LET e == Rec[l]  var == e.dec[1]  a == e.dec[2]  q == Q(I, e.src) IN
     /\ devs' = Add(devs, Tag(var # D.var \/ e.src \notin DOMAIN D.cur, "C12 transition-outside-layer")
                          \cup Tag(var \in Vars(I) /\ a \notin DomQ(I, var, q), "C12 decision-outside-domain"))
     /\ D' = [D EXCEPT !.lastT = [src |-> e.src, dec |-> e.dec, ret |-> e.ret]]
  /\ UNCHANGED <<I, HT, run, ddk, inp>>
TCost ==
  /\ Ev("cb") /\ Rec[l].f = "cost"
  /\ LET e == Rec[l]  var == e.dec[1]  a == e.dec[2]  q == Q(I, e.src)
         okdom == var \in Vars(I) /\ a \in DomQ(I, var, q)
         fresh == e.dst \notin DOMAIN D.pending
         to == IF fresh THEN D.nnodes ELSE D.pending[e.dst]
         from == IF e.src \in DOMAIN D.cur THEN D.cur[e.src] ELSE -1
         v == IF from \in DOMAIN D.val THEN D.val[from] + e.ret ELSE NegInf IN
     /\ devs' = Add(devs, Tag(~okdom, "C12 decision-outside-domain")
                          \cup Tag(okdom /\ Q(I, e.dst) # TrQ(I, var, q, a), "C12 cost-dst-is-not-the-transition")
                          \cup Tag(var # D.var \/ e.src \notin DOMAIN D.cur, "C12 cost-outside-layer")
                          \cup Tag(D.lastT = None \/ D.lastT.src # e.src \/ D.lastT.dec # e.dec \/ D.lastT.ret # e.dst, "DIV cost-call-does-not-follow-its-transition"))
     /\ D' = [D EXCEPT !.lastT = None,
                       !.arcs = D.arcs \cup {[src |-> e.src, dec |-> e.dec, dst |-> e.dst, cost |-> e.ret, layer |-> D.nlayers]},
                       !.pending = IF fresh THEN Put(D.pending, e.dst, to) ELSE D.pending,
                       !.nnodes = IF fresh THEN D.nnodes + 1 ELSE D.nnodes,
                       !.state = IF fresh THEN Put(D.state, to, e.dst) ELSE D.state,
                       !.layerOf = IF fresh THEN Put(D.layerOf, to, D.nlayers + 1) ELSE D.layerOf,
                       !.val = Put(D.val, to, IF to \in DOMAIN D.val THEN Max2(D.val[to], v) ELSE v),
                       !.edges = D.edges \cup {[from |-> from, to |-> to, var |-> var, val |-> a, cost |-> e.ret]}]
  /\ UNCHANGED <<I, HT, run, ddk, inp>>
\* ---- merge: at least two states of the layer that is about to be expanded
TMerge ==
  /\ Ev("cb") /\ Rec[l].f = "merge"
  /\ LET e == Rec[l]
         sts == {e.states[i] : i \in DOMAIN e.states}
         kept == (DOMAIN D.cur) \ sts
         recycled == e.ret \in kept
         id == IF recycled THEN D.cur[e.ret] ELSE D.nnodes IN
     /\ devs' = Add(devs, Tag(Len(e.states) < 2, "C12 merge-of-less-than-two-states")
                          \cup Tag(~(sts \subseteq DOMAIN D.cur) \/ Cardinality(sts) # Len(e.states), "C12 merge-of-states-outside-layer")
                          \cup Tag(D.expanded > 0, "DIV merge-after-expansion-started"))
     /\ D' = [D EXCEPT !.merge = [states |-> sts, ret |-> e.ret, id |-> id, recycled |-> recycled],
                       !.nnodes = IF recycled THEN D.nnodes ELSE D.nnodes + 1,
                       !.state = IF recycled THEN D.state ELSE Put(D.state, id, e.ret),
                       !.layerOf = IF recycled THEN D.layerOf ELSE Put(D.layerOf, id, D.nlayers),
                       !.val = IF recycled THEN D.val ELSE Put(D.val, id, NegInf),
                       !.gone = D.gone \cup {D.cur[s] : s \in sts \cap DOMAIN D.cur},
                       !.nrecycled = IF recycled THEN D.nrecycled + 1 ELSE D.nrecycled,
                       \* the merged node joins the layer (a merged-away state that coincides with it is replaced)
                       !.cur = IF recycled THEN D.cur ELSE Put(D.cur, e.ret, id)]
  /\ UNCHANGED <<I, HT, run, ddk, inp>>
TRelax ==
  /\ Ev("cb") /\ Rec[l].f = "relax"
  /\ LET e == Rec[l]
         m == D.merge
         arc == {x \in D.arcs : x.src = e.src /\ x.dec = e.dec /\ x.dst = e.dst /\ e.dst \in DOMAIN D.cur}
         fromIds == {ed.from : ed \in {y \in D.edges : y.var = e.dec[1] /\ y.val = e.dec[2] /\ y.from \in DOMAIN D.state /\ D.state[y.from] = e.src
                                                         /\ y.to \in DOMAIN D.state /\ D.state[y.to] = e.dst /\ D.layerOf[y.to] = D.nlayers}}
         from == IF fromIds = {} THEN -1 ELSE CHOOSE i \in fromIds : TRUE
         v == IF from \in DOMAIN D.val /\ m # None THEN D.val[from] + e.ret ELSE NegInf IN
     /\ devs' = Add(devs, Tag(m = None, "C12 relax-without-merge")
                          \cup Tag(m # None /\ e.merged # m.ret, "C12 relax-merged-is-not-the-last-merge-result")
                          \cup Tag(m # None /\ e.dst \notin m.states, "C12 relax-dst-not-among-merged-states")
                          \cup Tag(arc = {}, "C12 relax-of-an-arc-not-in-this-diagram")
                          \cup Tag(arc # {} /\ ~\E x \in arc : x.cost = e.cost, "C12 relax-cost-is-not-the-arc-cost"))
     /\ D' = IF m = None THEN D
             ELSE [D EXCEPT !.edges = D.edges \cup {[from |-> from, to |-> m.id, var |-> e.dec[1], val |-> e.dec[2], cost |-> e.ret]},
                            !.val = Put(D.val, m.id, IF m.id \in DOMAIN D.val THEN Max2(D.val[m.id], v) ELSE v)]
  /\ UNCHANGED <<I, HT, run, ddk, inp>>
TCompiled ==
  /\ Ev("compiled")
  /\ devs' = Add(devs, (IF Rec[l].ok THEN WidthTags ELSE {}))
  /\ D' = [D EXCEPT !.over = TRUE]
  /\ UNCHANGED <<I, HT, run, ddk, inp>>
TSkip == /\ Ev("cutset") /\ UNCHANGED <<I, HT, run, ddk, inp, D, devs>>
TPanic == /\ Ev("panic") /\ devs' = Add(devs, {"C20 panic-in-library", "C12 panic-in-library"}) /\ UNCHANGED <<I, HT, run, ddk, inp, D>>

\* ------------------------------------------------------------------ C20
FlagCount(c) == Cardinality({i \in 1..4 : c[i]})
\* The comparison never relies on how the implementation numbers its nodes: the complete drawings (show_deleted) are compared with
\* the rebuilt diagram as BAGS of states / arcs / values, and name the nodes; the other drawings of the same diagram are compared
\* with the complete one (same numbers within one diagram) and with the number / states of the nodes the protocol says are deleted.
BagOf(S, f(_)) == [v \in {f(x) : x \in S} |-> Cardinality({x \in S : f(x) = v})]
VizTags(e) ==
  LET dn == DOMAIN e.nodes
      ids == {e.nodes[i].id : i \in dn}
      all == 0..(D.nnodes - 1)
      showDel == e.cfg[5]
      StOfId(id) == LET i == CHOOSE j \in dn : e.nodes[j].id = id IN e.nodes[i].st
      drawnEdges == {[from |-> e.edges[i].from, to |-> e.edges[i].to, var |-> e.edges[i].var, val |-> e.edges[i].val, cost |-> e.edges[i].cost] : i \in DOMAIN e.edges}
      known == \A x \in drawnEdges : x.from \in ids /\ x.to \in ids
      hasTerm == D.term # {}
      bestTerm == IF D.term = {} THEN {} ELSE {i \in D.term : \A j \in D.term : D.val[j] <= D.val[i]}
      \* expected number of deleted nodes
      wide == {L \in {D.layerOf[i] : i \in all} : LET mem == {i \in all : D.layerOf[i] = L} IN mem \cap D.term = {} /\ Cardinality(mem) > inp.width}
      delRestricted == FoldSet(LAMBDA L, acc : acc + Cardinality({i \in all : D.layerOf[i] = L}) - inp.width, 0, wide)
      hiddenN == D.full.n - Cardinality(ids)
      hiddenSt == BagOf(D.full.ids \ ids, LAMBDA id : D.full.st[id])
      goneSt == BagOf(D.gone, LAMBDA i : D.state[i])
      wideSt == BagOf({i \in all : D.layerOf[i] \in wide}, LAMBDA i : D.state[i])
      SubBagV(a, b2) == \A v \in DOMAIN a : v \in DOMAIN b2 /\ a[v] <= b2[v]
  IN Tag(~e.ok, "C20 panic")
     \cup (IF ~e.ok THEN {} ELSE
          Tag(Len(e.malformed) > 0, "C20 malformed-dot")
     \cup Tag(Cardinality(ids) # Len(e.nodes), "C20 node-declared-twice")
     \cup Tag(~known, "C20 edge-to-undeclared-node")
     \cup Tag(Len(e.edges) # Cardinality(drawnEdges), "C20 edge-drawn-twice")
     \cup Tag((e.terminal >= 1) # hasTerm \/ e.terminal > 1, "C20 terminal-node-iff-last-layer")
     \cup Tag(Len(e.clusters) > 0 /\ ~(e.cfg[5] /\ e.cfg[6]), "C20 clusters-without-flags")
     \cup Tag(\E i \in dn : e.nodes[i].nfields # FlagCount(e.cfg), "C20 label-fields")
     \cup Tag(e.cfg[1] /\ \E i \in dn : "val" \notin DOMAIN e.nodes[i].fields, "C20 label-fields")
     \cup (IF showDel
           THEN \* complete drawing against the rebuilt diagram, as bags
                Tag(BagOf(dn, LAMBDA i : e.nodes[i].st) # BagOf(all, LAMBDA i : D.state[i]), "C20 nodes-differ-from-diagram")
           \cup Tag(known /\ BagOf(drawnEdges, LAMBDA x : <<StOfId(x.from), StOfId(x.to), x.var, x.val, x.cost>>)
                            # BagOf(D.edges, LAMBDA x : <<D.state[x.from], D.state[x.to], x.var, x.val, x.cost>>), "C20 edges-differ-from-arcs")
           \cup Tag(e.cfg[1] /\ (\A i \in dn : "val" \in DOMAIN e.nodes[i].fields)
                    /\ BagOf(dn, LAMBDA i : <<e.nodes[i].st, e.nodes[i].fields.val>>) # BagOf(all, LAMBDA i : <<D.state[i], D.val[i]>>), "C20 value-label")
           \cup Tag(hasTerm /\ BagOf(DOMAIN e.term, LAMBDA i : IF e.term[i].from \in ids THEN StOfId(e.term[i].from) ELSE <<>>) # BagOf(D.term, LAMBDA i : D.state[i]), "C20 terminal-edges")
           \cup Tag(hasTerm /\ BagOf({j \in DOMAIN e.term : e.term[j].pw = 3}, LAMBDA i : IF e.term[i].from \in ids THEN StOfId(e.term[i].from) ELSE <<>>) # BagOf(bestTerm, LAMBDA i : D.state[i]), "C20 terminal-best-edges")
           \cup Tag(D.full.n >= 0 /\ (ids # D.full.ids \/ drawnEdges # D.full.edges), "C20 complete-drawings-differ")
           ELSE IF D.full.n < 0 THEN {}
           ELSE \* partial drawing against the complete one of the same diagram
                Tag(~(ids \subseteq D.full.ids), "C20 unknown-node")
           \cup Tag(drawnEdges # {x \in D.full.edges : x.to \in ids}, "C20 edges-differ-from-arcs")
           \cup Tag({e.term[i].from : i \in DOMAIN e.term} # (D.full.term \cap ids), "C20 terminal-edges")
           \cup Tag(\E i \in dn : e.nodes[i].id \in D.full.ids /\ e.nodes[i].st # D.full.st[e.nodes[i].id], "C20 nodes-differ-from-diagram")
           \* hidden = deleted: as many as the protocol deletes, and only states that it can delete
           \cup Tag(inp.type = "exact" /\ hiddenN # 0, "C20 node-hidden-that-was-not-deleted")
           \* (restricted diagrams: the callbacks do not show which nodes a restriction drops; the count is inferred from the size of the layers,
           \* which is only valid when every node is expanded in the layer below the one that created it -- not with long arcs, where a node may
           \* wait in the pool and never belong to the layer being restricted)
           \cup Tag(inp.type = "restricted" /\ ~I.long_arcs /\ hiddenN > delRestricted, "C20 node-hidden-that-was-not-deleted")
           \cup Tag(inp.type = "restricted" /\ ~I.long_arcs /\ hiddenN < delRestricted, "C20 deleted-node-drawn")
           \cup Tag(inp.type = "restricted" /\ ~I.long_arcs /\ ~SubBagV(hiddenSt, wideSt), "C20 node-hidden-that-was-not-deleted")
           \cup Tag(inp.type = "relaxed" /\ (hiddenN > Cardinality(D.gone) \/ ~SubBagV(hiddenSt, goneSt)), "C20 node-hidden-that-was-not-deleted")
           \cup Tag(inp.type = "relaxed" /\ hiddenN < Cardinality(D.gone) - D.nrecycled, "C20 deleted-node-drawn")))
TViz ==
  /\ Ev("viz")
  /\ LET e == Rec[l] IN
     /\ devs' = Add(devs, VizTags(e))
     \* the first complete drawing of a diagram names its nodes
     /\ D' = IF e.ok /\ e.cfg[5] /\ D.full.n < 0
             THEN [D EXCEPT !.full = [n |-> Len(e.nodes), ids |-> {e.nodes[i].id : i \in DOMAIN e.nodes},
                                      st |-> [id \in {e.nodes[i].id : i \in DOMAIN e.nodes} |-> (e.nodes[CHOOSE j \in DOMAIN e.nodes : e.nodes[j].id = id]).st],
                                      edges |-> {[from |-> e.edges[i].from, to |-> e.edges[i].to, var |-> e.edges[i].var, val |-> e.edges[i].val, cost |-> e.edges[i].cost] : i \in DOMAIN e.edges},
                                      term |-> {e.term[i].from : i \in DOMAIN e.term}]]
             ELSE D
  /\ UNCHANGED <<I, HT, run, ddk, inp>>
Next == TReset \/ TCompile \/ TNextVar \/ TDomain \/ TTransition \/ TCost \/ TMerge \/ TRelax \/ TCompiled \/ TSkip \/ TPanic \/ TViz
Spec == Init /\ [][Next]_vars
Report == l = Len(Rec) + 1 => PrintT(<<"RESULT", ToJson([total |-> Len(Rec), devs |-> devs])>>)
Accepted == TLCGet("stats").diameter - 1 = Len(Rec)
=============================================================================
