------------------------------- MODULE ParBnB -------------------------------
(* The critical record of solver/parallel.rs and the effect of each critical section, as pure  *)
(* operators shared by the generative model (MC_ParBnB) and the trace specification (TracePar). *)
(* The mutex is not modelled: each critical section is atomic, which is what the mutex gives.   *)
(*                                                                                             *)
(* P = [fringe, table, ongoing, explored, bestLb, hasSol, bestUb, abort, open, ongoingBy,      *)
(*      first, ubVec]      ubVec: worker -> upper bound of the node it processes, Idle if none *)
EXTENDS Fringe, ThresholdCache, DPModel
Idle == PosInf                              \* the code uses isize::MAX for an idle thread
PInit(kind, root, n, workers) ==
  [fringe |-> FPush(kind, EmptyBag, Item(root)), table |-> CEmpty, ongoing |-> 0, explored |-> 0, bestLb |-> NegInf, hasSol |-> FALSE,
   bestUb |-> PosInf, abort |-> FALSE, open |-> [d \in 0..n |-> IF d = 0 THEN 1 ELSE 0], ongoingBy |-> [d \in 0..n |-> 0], first |-> 0,
   ubVec |-> [w \in workers |-> Idle]]
PPrimal(P, v) == IF v > P.bestLb THEN [P EXCEPT !.bestLb = v, !.hasSol = TRUE] ELSE P
\* get_workload: cache layers above the first active one are cleared
RECURSIVE PClean(_, _)
PClean(P, n) == IF P.first < n /\ P.open[P.first] + P.ongoingBy[P.first] = 0
                THEN PClean([P EXCEPT !.table = CClearLayer(P.table, P.first), !.first = P.first + 1], n)
                ELSE P
\* the order of the tests in get_workload (after the repair of D4: the abort test comes first)
PWorkloadKind(P) == IF P.abort THEN "aborted"
                    ELSE IF P.ongoing = 0 /\ P.fringe = EmptyBag THEN "complete"
                    ELSE IF P.fringe = EmptyBag THEN "wait"
                    ELSE "pop"
PComplete(P) == [P EXCEPT !.bestUb = P.bestLb]
PPopped(P, x) == [P EXCEPT !.fringe = FPop(P.fringe, x)]                          \* the item leaves the fringe
PClearedAll(P, n) == [P EXCEPT !.fringe = EmptyBag, !.open = [d \in 0..n |-> 0]]    \* popped bound cannot beat the incumbent
PSkipped(P, sp) == [P EXCEPT !.open[sp.depth] = P.open[sp.depth] - 1]              \* the cache says: no need to explore
PMarkExplored(P, sp) == [P EXCEPT !.table = CUpd(P.table, sp.depth, sp.st, <<sp.value, TRUE>>)]
PWork(P, w, sp) == [P EXCEPT !.ongoing = P.ongoing + 1, !.explored = P.explored + 1, !.ubVec[w] = sp.ub,
                             !.open[sp.depth] = P.open[sp.depth] - 1, !.ongoingBy[sp.depth] = P.ongoingBy[sp.depth] + 1]
PUpdate(P, bev) == IF bev > P.bestLb THEN [P EXCEPT !.bestLb = bev, !.hasSol = TRUE] ELSE P
PFinish(P, w, depth) == [P EXCEPT !.ongoing = P.ongoing - 1, !.ubVec[w] = Idle, !.ongoingBy[depth] = P.ongoingBy[depth] - 1]
\* abort_search (after the repair of D4): everything still open bounds the optimum
PAbortUb(P, w, currentUb) ==
  LET others == {P.ubVec[v] : v \in DOMAIN P.ubVec} \ {Idle}
      top == {x.ub : x \in Poppable(P.fringe)}
      prev == IF P.abort THEN {P.bestUb} ELSE {} IN
  Max({currentUb, P.bestLb} \cup others \cup top \cup prev)
PAbort(P, w, currentUb) == [P EXCEPT !.abort = TRUE, !.bestUb = PAbortUb(P, w, currentUb), !.fringe = EmptyBag, !.table = CEmpty]
=============================================================================
