SPECIFICATION Spec
CONSTANTS NSpawn = 3 WithCutoff = TRUE
INVARIANTS C03_Optimal C05_BoundsSound C04_NeverWaitWhenIdle
PROPERTIES C04_Termination
