--------------------------- MODULE MC_ParBnBTable ---------------------------
(* Table mode of the parallel protocol model (DESIGN.md 6.C03 b): the compile outcomes are not    *)
(* drawn from the contract but read from a table computed by calling the REAL diagram compilers   *)
(* on every reachable (sub-problem, incumbent) pair of one tiny instance (harness `tab`).  The    *)
(* actions have the granularity of the real scheduler: one action = what a worker does between    *)
(* two lock acquisitions (the lock acquisition and the non-critical code that follows it).  The   *)
(* state graph is therefore small and every path is a schedule that the real ParallelSolver can   *)
(* follow exactly; tools/graphwalk turns an edge cover of it into replayed runs.                  *)
EXTENDS ParBnB, Json, IOUtils
CONSTANTS NSpawn, WithCutoff
T == JsonDeserialize(IOEnv.TABLE)
Cores == DOMAIN T.cores
MaxDepth == T.maxdepth
Workers == 1..NSpawn
OptT == T.opt
LbIdx(v) == CHOOSE i \in DOMAIN T.lbs : T.lbs[i] = v
NodeItem(c, ub) == [st |-> c, depth |-> T.cores[c].depth, value |-> T.cores[c].value, ub |-> ub, paths |-> {<<>>}]
NoNode == [st |-> 0, depth |-> 0, value |-> 0, ub |-> NegInf, paths |-> {}]
VARIABLES P, pc, node, out, parked, stop
vars == <<P, pc, node, out, parked, stop>>
Init == /\ P = PInit("simple", [st |-> 1, depth |-> 0, value |-> T.cores[1].value, ub |-> PosInf, path |-> <<>>], MaxDepth, Workers)
        /\ pc = [w \in Workers |-> "get"] /\ node = [w \in Workers |-> NoNode]
        /\ out = [w \in Workers |-> [exact |-> TRUE, bev |-> NegInf, cs |-> <<>>]] /\ parked = {} /\ stop = FALSE
\* ---- gate get_workload
GW_Aborted(w) == /\ pc[w] = "get" /\ PWorkloadKind(PClean(P, MaxDepth)) = "aborted"
                 /\ P' = PClean(P, MaxDepth) /\ pc' = [pc EXCEPT ![w] = "exited"] /\ UNCHANGED <<node, out, parked, stop>>
GW_Complete(w) == /\ pc[w] = "get" /\ PWorkloadKind(PClean(P, MaxDepth)) = "complete"
                  /\ P' = PComplete(PClean(P, MaxDepth)) /\ pc' = [pc EXCEPT ![w] = "exited"] /\ UNCHANGED <<node, out, parked, stop>>
GW_Wait(w) == /\ pc[w] = "get" /\ PWorkloadKind(PClean(P, MaxDepth)) = "wait"
              /\ P' = PClean(P, MaxDepth) /\ parked' = parked \cup {w} /\ pc' = [pc EXCEPT ![w] = "parked"] /\ UNCHANGED <<node, out, stop>>
\* ties between equally ranked fringe nodes are broken by the implementation: both orders are explored here,
\* the replay follows whichever the real fringe takes (divergences are counted, never a verdict)
GW_Pop(w) == /\ pc[w] = "get" /\ PWorkloadKind(PClean(P, MaxDepth)) = "pop"
             /\ LET P1 == PClean(P, MaxDepth) IN
                \E x \in Poppable(P1.fringe) :
                   IF x.ub <= P1.bestLb
                   THEN /\ P' = PClearedAll(PPopped(P1, x), MaxDepth) /\ UNCHANGED <<pc, node>>
                   ELSE /\ P' = PWork(PPopped(P1, x), w, x) /\ node' = [node EXCEPT ![w] = x] /\ pc' = [pc EXCEPT ![w] = "lb1"]
             /\ UNCHANGED <<out, parked, stop>>
\* ---- gate best_lb, followed (same block) by the compilation
Compile(w, from) ==
  /\ pc[w] = from
  /\ LET c == node[w].st  lb == P.bestLb  restricted == from = "lb1" IN
     IF restricted /\ node[w].ub <= lb THEN pc' = [pc EXCEPT ![w] = "finish"] /\ out' = out                       \* node_ub <= best_lb: nothing to do
     ELSE IF stop /\ T.cores[c].polls THEN pc' = [pc EXCEPT ![w] = "abort"] /\ out' = out                          \* Err(CutoffOccurred)
     ELSE LET o == IF restricted THEN T.restricted[c][LbIdx(lb)] ELSE T.relaxed[c][LbIdx(lb)] IN
          /\ out' = [out EXCEPT ![w] = [exact |-> o.exact, bev |-> o.bev, cs |-> IF restricted THEN <<>> ELSE o.cs]]
          /\ pc' = [pc EXCEPT ![w] = IF restricted THEN "upd1" ELSE "upd2"]
  /\ UNCHANGED <<P, node, parked, stop>>
\* ---- gate update_best
Update(w, from) == /\ pc[w] = from /\ P' = PUpdate(P, out[w].bev)
                   /\ pc' = [pc EXCEPT ![w] = IF out[w].exact THEN "finish" ELSE IF from = "upd1" THEN "lb2" ELSE "enqueue"]
                   /\ UNCHANGED <<node, out, parked, stop>>
RECURSIVE PushAll(_, _)
PushAll(f, S) == IF S = {} THEN f ELSE LET x == CHOOSE y \in S : TRUE IN PushAll(FPush("simple", f, x), S \ {x})
Enqueue(w) == /\ pc[w] = "enqueue"
              /\ LET cand == {NodeItem(out[w].cs[i].core, Min2(out[w].cs[i].ub, node[w].ub)) : i \in DOMAIN out[w].cs}
                     keep == {x \in cand : x.ub > P.bestLb} IN
                 P' = [P EXCEPT !.fringe = PushAll(P.fringe, keep),
                                !.open = [d \in DOMAIN P.open |-> P.open[d] + Cardinality({x \in keep : x.depth = d})]]
              /\ pc' = [pc EXCEPT ![w] = "finish"] /\ UNCHANGED <<node, out, parked, stop>>
Abort(w) == /\ pc[w] = "abort" /\ P' = PAbort(P, w, node[w].ub) /\ pc' = [pc EXCEPT ![w] = "finishA"] /\ UNCHANGED <<node, out, parked, stop>>
Finish(w) == /\ pc[w] \in {"finish", "finishA"} /\ P' = PFinish(P, w, node[w].depth)
             /\ pc' = [p \in Workers |-> IF p = w THEN (IF pc[w] = "finishA" THEN "exited" ELSE "get") ELSE IF p \in parked THEN "get" ELSE pc[p]]
             /\ parked' = {} /\ node' = [node EXCEPT ![w] = NoNode] /\ UNCHANGED <<out, stop>>
CutoffFires == /\ WithCutoff /\ ~stop /\ stop' = TRUE /\ UNCHANGED <<P, pc, node, out, parked>>
Step(w) == \/ GW_Aborted(w) \/ GW_Complete(w) \/ GW_Wait(w) \/ GW_Pop(w) \/ Compile(w, "lb1") \/ Compile(w, "lb2")
           \/ Update(w, "upd1") \/ Update(w, "upd2") \/ Enqueue(w) \/ Abort(w) \/ Finish(w)
AllExited == \A w \in Workers : pc[w] = "exited"
Next == (\E w \in Workers : Step(w)) \/ CutoffFires \/ (AllExited /\ UNCHANGED vars)
Spec == Init /\ [][Next]_vars /\ \A w \in Workers : WF_vars(Step(w))
\* the properties, with the outcomes of the real compilers
C03_Optimal == AllExited /\ ~P.abort => P.bestLb = OptT /\ P.bestUb = OptT
C05_BoundsSound == AllExited => P.bestLb <= OptT /\ OptT <= P.bestUb
C04_NeverWaitWhenIdle == \A w \in parked : P.ongoing > 0
C04_Termination == <>AllExited
=============================================================================
