----------------------------- MODULE DDContract -----------------------------
(* The contract between a decision-diagram compilation and the solvers (C06, C07, C08), stated  *)
(* against the oracle of DPModel.  It is used three ways: (a) the solver specifications draw    *)
(* compile outcomes from it (assume/guarantee), (b) TLC checks DD.tla against it (MC_DD),       *)
(* (c) trace validation checks every real compilation against it.                               *)
(* inp = [type, width, root = [st, depth, value, ub, path], best_lb]                            *)
(* res = [ok, exact, bv, bev, bsol = [some, decs], besol = [some, decs]]   (values: NegInf = none) *)
EXTENDS DPModel
RootOpt(I, HT, inp) == SpOpt(I, HT, inp.root)
Beats(I, HT, inp) == RootOpt(I, HT, inp) > inp.best_lb
Tag(c, t) == IF c THEN {t} ELSE {}

CompileTags(I, HT, inp, res) ==
  IF ~res.ok THEN {}
  ELSE LET ro == RootOpt(I, HT, inp)  beats == ro > inp.best_lb IN
   CASE inp.type = "relaxed" ->
          Tag(beats /\ res.bv < ro, "C06 bound-below-completion")
     \cup Tag(res.exact /\ beats /\ res.bev # ro, "C06 exact-claim-wrong-value")
     \cup Tag(res.besol.some /\ ~FeasibleSolution(I, res.besol.decs, res.bev), "C06 exact-solution-infeasible")
     \cup Tag(res.besol.some # ~IsNegInf(res.bev), "C06 exact-solution-presence")
     \cup Tag(~IsNegInf(res.bev) /\ res.bev > ro, "C06 exact-value-above-optimum")
     [] inp.type = "restricted" ->
          Tag(res.bv > ro, "C07 value-above-optimum")
     \cup Tag(res.bsol.some /\ ~FeasibleSolution(I, res.bsol.decs, res.bv), "C07 solution-infeasible")
     \cup Tag(res.bsol.some # ~IsNegInf(res.bv), "C07 solution-presence")
     \cup Tag(res.besol.some /\ ~FeasibleSolution(I, res.besol.decs, res.bev), "C07 solution-infeasible")
     \cup Tag(res.exact /\ beats /\ res.bv # ro, "C07 exact-claim-wrong-value")
     [] OTHER ->
          Tag(beats /\ res.bv # ro, "C07 exact-mode-not-optimal")
     \cup Tag(res.bv > ro, "C07 value-above-optimum")
     \cup Tag(res.bsol.some /\ ~FeasibleSolution(I, res.bsol.decs, res.bv), "C07 solution-infeasible")

CoverCheckable(I, root) == (IF I.family = "lifted" THEN I.m ELSE 2) ^ (IF StaticOrder(I) THEN I.n - root.depth ELSE I.n) <= 1500
\* cs: the set of sub-problems handed out by drain_cutset after a relaxed compilation that is not exact
CutsetTags(I, HT, inp, res, cs) ==
  IF ~(res.ok /\ inp.type = "relaxed" /\ ~res.exact) THEN {}
  ELSE LET root == inp.root
           bar == Max2(inp.best_lb, res.bev) IN
          Tag(\E c \in cs : ~ExactSubProblem(I, c), "C08 node-not-exact")
     \cup Tag(\E c \in cs : c.depth <= root.depth \/ (c.depth = root.depth /\ c.st = root.st), "C08 no-progress")
     \cup Tag(\E c \in cs : SpOpt(I, HT, c) > inp.best_lb /\ c.ub < SpOpt(I, HT, c), "C08 bound-below-completion")
     \* (the completions of the root are enumerated: only when there are at most ~1500 of them)
     \cup Tag(CoverCheckable(I, root) /\ \E p \in Completions(I, root) : /\ Plus(root.value, p[2]) > bar
                                               /\ ~\E c \in cs : c.depth > root.depth /\ Through(I, root, c, p), "C08 not-covered")
=============================================================================
