------------------------------ MODULE MC_Cache ------------------------------
(* All operation histories of the cache over a small alphabet; C18 (sequential part) on the    *)
(* specification itself, with a history variable recording every update since the last clear.  *)
EXTENDS ThresholdCache
CONSTANTS States, Depths, Values, MaxOps, Hist
VARIABLES table, nops, written     \* written: set of <<d, s, <<v, e>>>> recorded since the layer was last cleared
vars == <<table, nops, written>>
Init == table = CEmpty /\ nops = 0 /\ written = {}
Tick == nops' = IF Hist THEN nops + 1 ELSE 0
Update(d, s, v, e) == /\ nops < MaxOps /\ table' = CUpd(table, d, s, <<v, e>>)
                      /\ written' = (IF Hist THEN written \cup {<<d, s, <<v, e>>>>} ELSE written) /\ Tick
Get(d, s) == nops < MaxOps /\ Tick /\ UNCHANGED <<table, written>>
ClearLayer(d) == /\ nops < MaxOps /\ table' = CClearLayer(table, d) /\ written' = {w \in written : w[1] # d} /\ Tick
Clear == /\ nops < MaxOps /\ table' = CEmpty /\ written' = {} /\ Tick
Next == (\E d \in Depths, s \in States, v \in Values, e \in BOOLEAN : Update(d, s, v, e))
        \/ (\E d \in Depths, s \in States : Get(d, s)) \/ (\E d \in Depths : ClearLayer(d)) \/ Clear
Spec == Init /\ [][Next]_vars
\* a read returns the lexicographic maximum of everything recorded since the layer was last cleared
C18_Read == Hist => \A d \in Depths, s \in States :
              LET ws == {w[3] : w \in {x \in written : x[1] = d /\ x[2] = s}} IN
              IF ws = {} THEN CGet(table, d, s) = NoTh
              ELSE CGet(table, d, s) \in ws /\ \A x \in ws : ~ThLess(CGet(table, d, s), x)
C18_Isolation == [][\A d \in Depths : (\E s \in States : CGet(table', d, s) # CGet(table, d, s) /\ CGet(table', d, s) = NoTh)
                       => \A d2 \in Depths \ {d} : \A s \in States : CGet(table', d2, s) = CGet(table, d2, s) \/ table' = CEmpty]_vars
C18_Monotone == [][\A d \in Depths, s \in States : CGet(table', d, s) = NoTh \/ ~ThLess(CGet(table', d, s), CGet(table, d, s))]_vars
=============================================================================
