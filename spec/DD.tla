--------------------------------- MODULE DD ---------------------------------
(* Generative model of one decision-diagram compilation, mirroring _compile of mdd/clean.rs      *)
(* (last-exact-layer and frontier cut-sets; exact / restricted / relaxed; rough upper bound;     *)
(* node re-use through next_l; the tie rule `value >= value_top` for the best arc; restriction;  *)
(* relaxation with redirection of every inbound arc of every merged-away node, including the     *)
(* branch that recycles a kept node equal to the merged state; exactness flags; best (exact)     *)
(* node; exact-best-path; cut-set extraction with local bounds).  One layer is one TLC step      *)
(* whose effect is written declaratively.  Every place where the code depends on hash-map        *)
(* iteration order or on sort_unstable ties is a nondeterministic choice here ("a best subset"), *)
(* so the model describes all behaviours any iteration order can produce.                        *)
(* TLC checks the model against the contract DDContract (C06, C07, C08), the per-layer width     *)
(* bound (C13) and the callback protocol it would emit (C12) -- on the specification itself.     *)
EXTENDS DDContract, ThresholdCache, Json, IOUtils
Insts == JsonDeserialize(IOEnv.INSTS)     \* array of instances (static variable order, every state impacted by every variable)
CONSTANTS Widths, Cuts
VARIABLES ii, HT, inp, cut, nodes, edges, layers, nextL, lel, pc, res, maxExpanded,
          cacheT      \* the threshold table the compilation reads (ThresholdCache format); empty when compiled in isolation
vars == <<ii, HT, inp, cut, nodes, edges, layers, nextL, lel, pc, res, maxExpanded, cacheT>>
I == Insts[ii]
N == I.n
StOf(d, q) == [d |-> IF I.with_depth THEN d ELSE -1, x |-> IF I.family = "knapsack" THEN <<q>> ELSE SetToSortSeq(q, LAMBDA a, b : a < b)]
MergeQ(qs) == IF I.family = "knapsack" THEN Max(qs) ELSE UNION qs
RankKey(q) == IF I.family = "knapsack" THEN q ELSE Cardinality(q)

\* exact sub-problems reachable from the root: <<depth, q, value, path (set of <<var, val>>)>>, longest path per state
RECURSIVE Reach(_)
Reach(d) == IF d = 0 THEN {<<0, RootQ(I), I.v0, {}>>}
            ELSE LET prev == Reach(d - 1)
                     cand == UNION {{<<d, TrQ(I, d - 1, p[2], a), p[3] + CoQ(I, d - 1, p[2], a), p[4] \cup {<<d - 1, a>>}>> : a \in DomQ(I, d - 1, p[2])} : p \in prev}
                 IN {CHOOSE c \in {y \in cand : y[2] = q /\ \A z \in cand : z[2] = q => z[3] <= y[3]} : TRUE : q \in {c[2] : c \in cand}}

\* ------------------------------------------------------------------ helpers on the diagram
\* node key = <<layer, kind, q>> ; kind "n" ordinary, "m" merged
Val(k) == nodes[k].val
Exact(k) == nodes[k].ex /\ ~nodes[k].rl
NBetter(a, b) == Val(a) > Val(b) \/ (Val(a) = Val(b) /\ RankKey(nodes[a].q) > RankKey(nodes[b].q))      \* a strictly preferred to b
BestSubsets(S, k) == {K \in SUBSET S : Cardinality(K) = k /\ \A a \in K, b \in S \ K : ~NBetter(b, a)}
KeyN(l, q) == <<l, "n", q>>
KeyM(l, q) == <<l, "m", q>>
NoKey == <<0, "none", 0>>                         \* "no such node" (same shape as a node key; layer 0 never exists)
NoEdge == [from |-> <<>>, to |-> <<>>, dec |-> <<-1, -1>>, cost |-> 0]
NoTheta == 999999                                   \* node.theta = None
NewNode(q, v, ex, d) == [q |-> q, val |-> v, ex |-> ex, rl |-> FALSE, del |-> FALSE, rub |-> PosInf, dep |-> d, best |-> NoEdge, byC |-> FALSE, th |-> NoTheta]
Depth == inp.root.depth + Len(layers)
RootPath == {<<inp.root.path[i][1], inp.root.path[i][2]>> : i \in DOMAIN inp.root.path}

Init == /\ ii \in 1..Len(Insts)
        /\ HT = <<>> /\ inp = <<>> /\ cut \in Cuts /\ nodes = <<>> /\ edges = {} /\ layers = <<>> /\ nextL = {} /\ lel = 0 /\ pc = "pick" /\ res = <<>> /\ maxExpanded = <<>> /\ cacheT = CEmpty
\* choose the compilation input: type, width, sub-problem root, incumbent relative to the root's optimum
Pick == /\ pc = "pick"
        /\ LET ht == HTable(I) IN
           \E ty \in {"restricted", "relaxed", "exact"}, wd \in Widths, d0 \in 0..N : \E sp \in Reach(d0) :
             LET ropt == Plus(sp[3], HStar(I, ht, d0, sp[2])) IN
             \E lb \in {NegInf} \cup (IF ropt > NegInf THEN {ropt - 1, ropt, ropt + 1} ELSE {}) :
               /\ HT' = ht
               /\ inp' = [type |-> ty, width |-> wd, best_lb |-> lb,
                          root |-> [st |-> StOf(d0, sp[2]), depth |-> d0, value |-> sp[3], ub |-> PosInf, path |-> SetToSeq(sp[4])], q0 |-> sp[2]]
               /\ nodes' = (KeyN(1, sp[2]) :> NewNode(sp[2], sp[3], TRUE, d0))
               /\ nextL' = {KeyN(1, sp[2])}
        /\ pc' = "loop" /\ UNCHANGED <<ii, cut, edges, layers, lel, res, maxExpanded, cacheT>>

\* expansion of a set of keys at depth d into layer index L+1 : returns [nodes, edges, next, count]
Expand(nds, exp, d, L) ==
   LET live == {k \in exp : Plus(nds[k].val, RubOf(I, HT, d, nds[k].q)) > inp.best_lb}
       okE == UNION {{[from |-> k, to |-> KeyN(L + 1, TrQ(I, d, nds[k].q, a)), dec |-> <<d, a>>, cost |-> CoQ(I, d, nds[k].q, a)] : a \in DomQ(I, d, nds[k].q)} : k \in live}
       tgt == {e.to : e \in okE}
       mk(t) == LET ins == {e \in okE : e.to = t}
                    v == Max({nds[e.from].val + e.cost : e \in ins})
                IN [NewNode(t[3], v, \A e \in ins : nds[e.from].ex /\ ~nds[e.from].rl, d + 1) EXCEPT !.best = CHOOSE e \in ins : nds[e.from].val + e.cost = v]
   IN [nodes |-> [k \in (DOMAIN nds) \cup tgt |-> IF k \in tgt THEN mk(k) ELSE IF k \in exp THEN [nds[k] EXCEPT !.rub = RubOf(I, HT, d, nds[k].q)] ELSE nds[k]],
       edges |-> okE, next |-> tgt, count |-> Cardinality(live)]
\* the best arc of a node with several equally good inbound arcs depends on the order of creation: any of them
\* _filter_with_cache (never on the root layer): a node whose value does not exceed the recorded threshold is pruned; it keeps the
\* threshold for the bottom-up propagation and is flagged pruned-by-cache
CachedTh(d, q) == CGet(cacheT, d, StOf(d, q))
Layer == /\ pc = "loop" /\ Depth < N
         /\ LET all == nextL  L == Len(layers) + 1  d == Depth
                pruned == IF Len(layers) = 0 THEN {} ELSE {k \in all : CachedTh(d, nodes[k].q) # NoTh /\ nodes[k].val <= CachedTh(d, nodes[k].q)[1]}
                curr == all \ pruned
                nodes0 == [k \in DOMAIN nodes |-> IF k \in pruned THEN [nodes[k] EXCEPT !.byC = TRUE, !.th = CachedTh(d, nodes[k].q)[1]] ELSE nodes[k]] IN
            IF all = {} THEN /\ layers' = Append(layers, {}) /\ pc' = "fin" /\ UNCHANGED <<nodes, edges, nextL, lel, maxExpanded>>
            ELSE IF curr = {} THEN /\ layers' = Append(layers, all) /\ nodes' = nodes0 /\ nextL' = {} /\ pc' = "loop" /\ maxExpanded' = Append(maxExpanded, 0) /\ UNCHANGED <<edges, lel>>
            ELSE
              \/ \* no squash
                 /\ \/ inp.type = "exact"
                    \/ Cardinality(curr) <= inp.width
                    \/ inp.type = "relaxed" /\ Len(layers) <= 1
                 /\ LET x == Expand(nodes0, curr, d, L) IN
                    /\ nodes' = x.nodes /\ edges' = edges \cup x.edges /\ nextL' = x.next /\ maxExpanded' = Append(maxExpanded, x.count)
                 /\ layers' = Append(layers, all) /\ UNCHANGED lel /\ pc' = "loop"
              \/ \* restrict: keep a best `width` subset, the others are deleted
                 /\ inp.type = "restricted" /\ Cardinality(curr) > inp.width
                 /\ \E keep \in BestSubsets(curr, inp.width) :
                      LET nd1 == [k \in DOMAIN nodes0 |-> IF k \in curr \ keep THEN [nodes0[k] EXCEPT !.del = TRUE] ELSE nodes0[k]]
                          x == Expand(nd1, keep, d, L) IN
                      /\ nodes' = x.nodes /\ edges' = edges \cup x.edges /\ nextL' = x.next /\ maxExpanded' = Append(maxExpanded, x.count)
                 /\ lel' = IF lel = 0 THEN Len(layers) ELSE lel
                 /\ layers' = Append(layers, all) /\ pc' = "loop"
              \/ \* relax: keep a best `width - 1` subset, merge the rest
                 /\ inp.type = "relaxed" /\ Cardinality(curr) > inp.width /\ Len(layers) > 1
                 /\ \E keep \in BestSubsets(curr, inp.width - 1) :
                      LET drop == curr \ keep
                          ms == MergeQ({nodes[k].q : k \in drop})
                          rec == {k \in keep : nodes[k].q = ms}
                          mk == IF rec # {} THEN CHOOSE k \in rec : TRUE ELSE KeyM(L, ms)
                          redir == {[from |-> e.from, to |-> mk, dec |-> e.dec, cost |-> RelaxCost(I, d, nodes[e.to].q, ms, e.cost)] : e \in {f \in edges : f.to \in drop}}
                          allIn == (IF rec # {} THEN {e \in edges : e.to = mk} ELSE {}) \cup redir
                          mv == Max({nodes[e.from].val + e.cost : e \in allIn})
                          mnode == [q |-> ms, val |-> mv, ex |-> FALSE, rl |-> TRUE, del |-> FALSE, rub |-> PosInf, dep |-> d, byC |-> FALSE, th |-> NoTheta,
                                    best |-> CHOOSE e \in allIn : nodes[e.from].val + e.cost = mv]
                          \* recycled path: the best dropped node is saved (un-deleted) and stays in the layer
                          saved == IF rec # {} THEN {CHOOSE k \in drop : \A j \in drop : ~NBetter(j, k)} ELSE {}
                          nd1 == [k \in (DOMAIN nodes0) \cup {mk} |->
                                    IF k = mk THEN mnode
                                    ELSE IF k \in drop \ saved THEN [nodes0[k] EXCEPT !.del = TRUE] ELSE nodes0[k]]
                          expset == IF rec # {} THEN keep \cup saved ELSE keep \cup {mk}
                          x == Expand(nd1, expset, d, L) IN
                      /\ nodes' = x.nodes /\ edges' = edges \cup redir \cup x.edges /\ nextL' = x.next /\ maxExpanded' = Append(maxExpanded, x.count)
                      /\ layers' = Append(layers, all \cup {mk})
                 /\ lel' = IF lel = 0 THEN Len(layers) ELSE lel
                 /\ pc' = "loop"
         /\ UNCHANGED <<ii, HT, inp, cut, res, cacheT>>
EndLoop == /\ pc = "loop" /\ Depth = N /\ pc' = "fin"
           /\ layers' = IF nextL # {} THEN Append(layers, nextL) ELSE layers
           /\ UNCHANGED <<ii, HT, inp, cut, nodes, edges, nextL, lel, res, maxExpanded, cacheT>>

\* ------------------------------------------------------------------ finalisation
\* The best arc of a node with several equally good inbound arcs is the one created last (`value >= value_top`), i.e. it depends
\* on iteration order.  All tied arcs are therefore candidates: an exact best path exists for SOME choice / for ALL choices.
BestIn(k) == {e \in edges : e.to = k /\ nodes[e.from].val + e.cost = Val(k)}
RECURSIVE SomeEBP(_)
SomeEBP(k) == IF Exact(k) THEN TRUE ELSE IF nodes[k].rl THEN FALSE ELSE IF BestIn(k) = {} THEN TRUE ELSE \E e \in BestIn(k) : SomeEBP(e.from)
RECURSIVE AllEBP(_)
AllEBP(k) == IF Exact(k) THEN TRUE ELSE IF nodes[k].rl THEN FALSE ELSE IF BestIn(k) = {} THEN TRUE ELSE \A e \in BestIn(k) : AllEBP(e.from)
\* a longest path to k, through exact nodes whenever some tied choice allows it
RECURSIVE PathOf(_)
PathOf(k) == IF BestIn(k) = {} THEN {}
             ELSE LET good == {e \in BestIn(k) : SomeEBP(e.from)}
                      e == IF good # {} THEN CHOOSE x \in good : TRUE ELSE CHOOSE x \in BestIn(k) : TRUE
                  IN {e.dec} \cup PathOf(e.from)
\* longest path to the terminal layer, over the final edge set (the local bound of _compute_local_bounds)
RECURSIVE VBot(_, _)
VBot(k, term) == IF k \in term THEN 0
                 ELSE LET outs == {e \in edges : e.from = k}
                          vs == {Plus(e.cost, VBot(e.to, term)) : e \in outs} \ {NegInf}
                      IN IF vs = {} THEN NegInf ELSE Max(vs)
Sol(k) == IF k = NoKey THEN [some |-> FALSE, decs |-> <<>>] ELSE [some |-> TRUE, decs |-> SetToSeq(RootPath \cup PathOf(k))]
\* max_by_key over a hash map: among equally good terminal nodes any one may be the best node (and the best exact node)
ArgMax(S) == IF S = {} THEN {NoKey} ELSE {k \in S : \A j \in S : Val(j) <= Val(k)}
Finalize == /\ pc = "fin"
            /\ \E bestN \in ArgMax(nextL), bestE0 \in ArgMax({k \in nextL : Exact(k)}), hebp \in BOOLEAN :
               \* (IF-THEN-ELSE, not disjunctions: inside an action TLC explores both sides of a disjunction)
               /\ hebp \in {b \in BOOLEAN : IF inp.type # "relaxed" THEN ~b
                                              ELSE IF bestN = NoKey THEN b
                                              ELSE (IF b THEN SomeEBP(bestN) ELSE ~AllEBP(bestN))}
               /\ LET term == nextL
                       isEx == lel = 0
                       bestE == IF hebp THEN bestN ELSE bestE0
                       lelI == IF lel = 0 THEN Len(layers) + 1 ELSE lel
                       cutset == IF ~(inp.type = "relaxed" \/ isEx) THEN {}
                                 ELSE IF cut = "lel" THEN (IF lelI <= Len(layers) THEN layers[lelI] ELSE {})
                                 ELSE {e.from : e \in {f \in edges : ~Exact(f.to) /\ Exact(f.from)}}
                       doLocb == inp.type = "relaxed" /\ lelI <= Len(layers)
                       bv == IF bestN = NoKey THEN NegInf ELSE Val(bestN)
                       out == IF bestN = NoKey THEN {} ELSE
                              {[st |-> StOf(nodes[k].dep, nodes[k].q), depth |-> nodes[k].dep, value |-> Val(k), path |-> SetToSeq(RootPath \cup PathOf(k)),
                                ub |-> Min2(Min2(Plus(Val(k), nodes[k].rub), Plus(Val(k), VBot(k, term))), bv)]
                                  : k \in {c \in cutset : doLocb /\ VBot(c, term) > NegInf}}
                       \* ---- _compute_thresholds: bottom-up thresholds and the cache updates they produce
                       doTh == inp.type = "relaxed" \/ isEx
                       bev0 == IF bestE = NoKey THEN NegInf ELSE Val(bestE)
                       bestKnown == Max2(inp.best_lb, bev0)
                       aboveK == IF cut = "lel" THEN UNION {layers[j] : j \in 1..(IF lelI <= Len(layers) THEN lelI ELSE Len(layers))}
                                 ELSE {k \in DOMAIN nodes : Exact(k)}
                       vb(k) == IF doLocb THEN VBot(k, term) ELSE NegInf
                       \* (saturating isize arithmetic of the code; isize::MIN - isize::MIN = 0: no incumbent and a dead end)
                       SubT(a, b2) == IF a >= PosInf \div 2 THEN (IF a = NoTheta THEN NoTheta ELSE PosInf) ELSE IF b2 >= PosInf \div 2 THEN NegInf
                                      ELSE IF b2 <= NegInf \div 2 THEN (IF a <= NegInf \div 2 THEN 0 ELSE PosInf) ELSE a - b2
                       ThInit(k) == IF k \in term /\ bestE # NoKey /\ ((cut = "lel" /\ isEx) \/ (cut = "fc" /\ Exact(k))) THEN bestKnown ELSE nodes[k].th
                       Theta[k \in DOMAIN nodes] ==
                           IF nodes[k].del THEN NoTheta
                           ELSE LET kids == {e \in edges : e.from = k /\ Theta[e.to] # NoTheta}
                                    fk == Min({ThInit(k)} \cup {SubT(Theta[e.to], e.cost) : e \in kids})
                                IN IF nodes[k].byC THEN fk
                                   ELSE IF Plus(Val(k), nodes[k].rub) <= bestKnown THEN SubT(bestKnown, nodes[k].rub)
                                   ELSE IF k \in cutset THEN (IF Plus(Val(k), vb(k)) <= bestKnown THEN Min2(IF fk = NoTheta THEN PosInf ELSE fk, SubT(bestKnown, vb(k))) ELSE Val(k))
                                   ELSE IF Exact(k) /\ fk = NoTheta THEN PosInf
                                   ELSE fk
                       cu == IF ~doTh THEN {} ELSE {[d |-> nodes[k].dep, st |-> StOf(nodes[k].dep, nodes[k].q), v |-> Theta[k], e |-> k \notin cutset] :
                                                      k \in {j \in aboveK : ~nodes[j].del /\ ~nodes[j].byC /\ Theta[j] # NoTheta}}
                   IN res' = [ok |-> TRUE, exact |-> isEx \/ hebp, bv |-> bv, bev |-> IF bestE = NoKey THEN NegInf ELSE Val(bestE),
                              besol |-> Sol(bestE), bsol |-> Sol(bestN), cs |-> out, cu |-> cu]
            /\ pc' = "done" /\ UNCHANGED <<ii, HT, inp, cut, nodes, edges, layers, nextL, lel, maxExpanded, cacheT>>
Next == Pick \/ Layer \/ EndLoop \/ Finalize \/ (pc = "done" /\ UNCHANGED vars)
Spec == Init /\ [][Next]_vars

\* ------------------------------------------------------------------ the properties, on the specification itself
Contract == pc = "done" => CompileTags(I, HT, inp, res) = {} /\ CutsetTags(I, HT, inp, res, res.cs) = {}
\* spec -> impl: every (input, outcome) pair of the model is printed; the harness compiles the same inputs with the real
\* Mdd<LAST_EXACT_LAYER> / Mdd<FRONTIER> and tools/ddcheck.py checks that each real outcome is one of the model's outcomes
CsKey(c) == [x |-> c.st.x, depth |-> c.depth, value |-> c.value, ub |-> c.ub]
\* the thresholds the compilation writes into an empty cache (values beyond +-PosInf/2 are "infinite" on both sides)
CuKey(u) == [d |-> u.d, x |-> u.st.x, v |-> IF u.v >= PosInf \div 2 THEN PosInf ELSE IF u.v <= NegInf \div 2 THEN NegInf ELSE u.v, e |-> u.e]
Emit == pc = "done" => PrintT(<<"OUT", ToJson([ii |-> ii, cut |-> cut, type |-> inp.type, width |-> inp.width, lb |-> inp.best_lb,
                                               root |-> [depth |-> inp.root.depth, x |-> inp.root.st.x, value |-> inp.root.value, path |-> inp.root.path],
                                               exact |-> res.exact, bv |-> res.bv, bev |-> res.bev, cs |-> {CsKey(c) : c \in res.cs},
                                               cu |-> {CuKey(u) : u \in res.cu}])>>)
\* C13: number of states expanded per layer (restricted: every layer; relaxed: from the third layer on)
C13_Width == pc = "done" => \A L \in DOMAIN maxExpanded :
                (inp.type = "restricted" \/ (inp.type = "relaxed" /\ L >= 3)) => maxExpanded[L] <= inp.width
\* C12 on the callbacks the model would emit: every arc joins two consecutive layers with dst = Trans(src, d), d in Dom
C12_Arcs == \A e \in edges : /\ e.from \in DOMAIN nodes /\ e.to \in DOMAIN nodes
                             /\ e.dec[2] \in DomQ(I, e.dec[1], nodes[e.from].q)
                             /\ (nodes[e.to].rl \/ nodes[e.to].q = TrQ(I, e.dec[1], nodes[e.from].q, e.dec[2]))
=============================================================================
