------------------------------ MODULE Examples ------------------------------
(* C16: for each shipped example, a DECLARATIVE definition of the optimum of its problem over   *)
(* the underlying combinatorial object (subsets, assignments, subsequences, mark sets,          *)
(* permutations, schedules) -- written from the problem statements, sharing nothing with the    *)
(* DP models, relaxations or bounds of ddo/examples.  TLC evaluates it on every generated        *)
(* instance; it is the oracle of the trace specification TraceExamples.                          *)
(* Values: Infeasible = -1 (what the programs print).  Instances are records read from JSON;     *)
(* all indices below are 1-based positions in the JSON arrays.                                   *)
EXTENDS Integers, Sequences, FiniteSets, TLC, FiniteSetsExt, SequencesExt
Infeasible == -1
Big == 100000000
SumOver(S, f(_)) == FoldSet(LAMBDA x, acc : acc + f(x), 0, S)
MaxOf(S) == IF S = {} THEN Infeasible ELSE Max(S)
MinOf(S) == IF S = {} THEN Infeasible ELSE Min(S)
\* all orderings (sequences without repetition) of a finite set
Orders(S) == {f \in [1..Cardinality(S) -> S] : \A i, j \in 1..Cardinality(S) : f[i] = f[j] => i = j}

\* ---- knapsack: max profit of a subset within capacity
Knapsack(I) == LET n == Len(I.profit) IN
  Max({SumOver(S, LAMBDA i : I.profit[i]) : S \in {T \in SUBSET (1..n) : SumOver(T, LAMBDA i : I.weight[i]) <= I.capacity}})
\* ---- misp: max weight independent set
Misp(I) == LET n == Len(I.weight) IN
  Max({SumOver(S, LAMBDA v : I.weight[v]) : S \in {T \in SUBSET (1..n) : \A e \in DOMAIN I.edges : ~(I.edges[e][1] \in T /\ I.edges[e][2] \in T)}})
\* ---- max2sat: clauses <<w, l1, l2>> (unit clause: l1 = l2), literal k = x_k, -k = not x_k; assignment = set of true variables
Lit(A, l) == IF l > 0 THEN l \in A ELSE (-l) \notin A
Max2Sat(I) == Max({SumOver({c \in DOMAIN I.clauses : Lit(A, I.clauses[c][2]) \/ Lit(A, I.clauses[c][3])}, LAMBDA c : I.clauses[c][1]) : A \in SUBSET (1..I.n)})
\* ---- mcp: max cut; edges <<u, v, w>> each once
Mcp(I) == Max({SumOver({e \in DOMAIN I.edges : (I.edges[e][1] \in S) # (I.edges[e][2] \in S)}, LAMBDA e : I.edges[e][3]) : S \in SUBSET (1..I.n)})
\* ---- lcs: longest common subsequence of the strings (sequences of integers)
RECURSIVE IsSubseq(_, _)
IsSubseq(x, s) == IF x = <<>> THEN TRUE ELSE IF s = <<>> THEN FALSE
                  ELSE IF Head(x) = Head(s) THEN IsSubseq(Tail(x), Tail(s)) ELSE IsSubseq(x, Tail(s))
Pick(s, P) == LET idx == SetToSortSeq(P, LAMBDA a, b : a < b) IN [i \in 1..Len(idx) |-> s[idx[i]]]
Lcs(I) == LET s1 == I.strings[1] IN
  Max({Cardinality(P) : P \in {R \in SUBSET (1..Len(s1)) : \A k \in 2..Len(I.strings) : IsSubseq(Pick(s1, R), I.strings[k])}})
\* ---- golomb: minimal last mark of n marks 0 = m0 < m1 < ... with pairwise distinct differences (printed negated)
RECURSIVE GolombFrom(_, _, _, _)
GolombFrom(marks, diffs, k, bound) ==          \* k marks still to place; returns the smallest achievable last mark, Big if none within bound
  IF k = 0 THEN Max(marks)
  ELSE LET lo == Max(marks) + 1
           cands == {m \in lo..bound : LET nd == {m - x : x \in marks} IN nd \cap diffs = {} /\ Cardinality(nd) = Cardinality(marks)}
       IN IF cands = {} THEN Big ELSE Min({GolombFrom(marks \cup {m}, diffs \cup {m - x : x \in marks}, k - 1, bound) : m \in cands})
Golomb(I) == IF I.n <= 1 THEN 0 ELSE -GolombFrom({0}, {}, I.n - 1, I.bound)
\* ---- sop: min cost Hamiltonian path from node 1 to node n; d[i][j] = -1 means j must precede i
Sop(I) == LET n == Len(I.d)
              mids == 2..(n - 1)
              Path(o) == <<1>> \o [i \in 1..Len(o) |-> o[i]] \o <<n>>
              Ok(p) == \A a, b \in 1..n : (a < b /\ I.d[p[a]][p[b]] = -1) => FALSE      \* p[b] must precede p[a] but comes later
              Cost(p) == SumOver(1..(n - 1), LAMBDA i : I.d[p[i]][p[i + 1]])
          IN IF n = 1 THEN 0 ELSE MinOf({Cost(Path(o)) : o \in {q \in Orders(mids) : Ok(Path(q))}})
\* ---- tsptw: min makespan; leave node 1 at time 0, visit all, return to node 1; windows <<earliest, latest>>
RECURSIVE TourTime(_, _, _, _)
TourTime(I, seq, at, t) ==                       \* seq = nodes still to visit in order (ends with 1); returns makespan or Big
  IF seq = <<>> THEN t
  ELSE LET nxt == Head(seq)  arr == t + I.d[at][nxt] IN
       IF arr > I.tw[nxt][2] THEN Big ELSE TourTime(I, Tail(seq), nxt, Max({arr, I.tw[nxt][1]}))
Tsptw(I) == LET n == Len(I.d)
                vals == {TourTime(I, [i \in 1..Len(o) |-> o[i]] \o <<1>>, 1, 0) : o \in Orders(2..n)} \ {Big}
            IN MinOf(vals)
\* ---- srflp: min sum over pairs (once) of flow * centre-to-centre distance; value doubled to stay integral
Srflp2(I) == LET n == Len(I.len)
                 Cost2(p) == SumOver({<<a, b>> \in (1..n) \X (1..n) : a < b}, LAMBDA ab :
                               LET x == p[ab[1]]  y == p[ab[2]]
                                   between == SumOver((ab[1] + 1)..(ab[2] - 1), LAMBDA k : I.len[p[k]])
                               IN I.flow[IF x < y THEN x ELSE y][IF x < y THEN y ELSE x] * (I.len[x] + 2 * between + I.len[y]))
             IN Min({Cost2(p) : p \in Orders(1..n)})
\* ---- talentsched: min total pay; actor a is paid for every scene shot between his first and last scene, inclusive
Talent(I) == LET ns == Len(I.duration)  na == Len(I.cost)
                 Cost(p) == SumOver(1..na, LAMBDA a :
                              LET mine == {i \in 1..ns : I.plays[a][p[i]] = 1} IN
                              IF mine = {} THEN 0 ELSE I.cost[a] * SumOver(Min(mine)..Max(mine), LAMBDA i : I.duration[p[i]]))
             IN Min({Cost(p) : p \in Orders(1..ns)})
\* ---- psp: schedule = item (1..I) or 0 (idle) per period; k-th production of an item serves its k-th demand, not later than it
Psp(I) == LET T == I.periods  NI == Len(I.stocking)
              Dem(i) == SetToSortSeq({t \in 1..T : I.demand[i][t] > 0}, LAMBDA a, b : a < b)
              Prod(s, i) == SetToSortSeq({t \in 1..T : s[t] = i}, LAMBDA a, b : a < b)
              Feas(s) == \A i \in 1..NI : Len(Prod(s, i)) = Len(Dem(i)) /\ \A k \in 1..Len(Dem(i)) : Prod(s, i)[k] <= Dem(i)[k]
              Stock(s) == SumOver(1..NI, LAMBDA i : SumOver(1..Len(Dem(i)), LAMBDA k : I.stocking[i] * (Dem(i)[k] - Prod(s, i)[k])))
              Busy(s) == SetToSortSeq({t \in 1..T : s[t] # 0}, LAMBDA a, b : a < b)
              Change(s) == LET b == Busy(s) IN SumOver(1..(Len(b) - 1), LAMBDA k : I.changeover[s[b[k]]][s[b[k + 1]]])
          IN MinOf({Stock(s) + Change(s) : s \in {x \in [1..T -> 0..NI] : Feas(x)}})
\* ---- alp: every aircraft gets a runway and a landing time >= target, <= latest; consecutive landings on a runway are separated
\*      by sep[class of leader][class of follower]; min total delay.  Given the global landing order and the runway of each aircraft,
\*      landing as early as possible is optimal.
RECURSIVE AlpCost(_, _, _, _, _)
AlpCost(I, order, rw, lastOn, acc) ==            \* lastOn: runway -> <<time, class>> or <<>> ; returns total delay or Big
  IF order = <<>> THEN acc
  ELSE LET a == Head(order)  r == rw[a]  T == I.aircraft[a][1]  L == I.aircraft[a][2]  c == I.aircraft[a][3] + 1
           t == IF lastOn[r] = <<>> THEN T ELSE Max({T, lastOn[r][1] + I.sep[lastOn[r][2]][c]}) IN
       IF t > L THEN Big ELSE AlpCost(I, Tail(order), rw, [lastOn EXCEPT ![r] = <<t, c>>], acc + (t - T))
Alp(I) == LET n == Len(I.aircraft)  R == 1..I.runways
              vals == {AlpCost(I, [i \in 1..n |-> o[i]], rw, [r \in R |-> <<>>], 0) : o \in Orders(1..n), rw \in [1..n -> R]} \ {Big}
          IN MinOf(vals)

Expected(ex, I) ==
  CASE ex = "knapsack" -> Knapsack(I) [] ex = "misp" -> Misp(I) [] ex = "max2sat" -> Max2Sat(I) [] ex = "mcp" -> Mcp(I)
    [] ex = "lcs" -> Lcs(I) [] ex = "golomb" -> Golomb(I) [] ex = "sop" -> Sop(I) [] ex = "tsptw" -> Tsptw(I)
    [] ex = "srflp" -> Srflp2(I) [] ex = "talentsched" -> Talent(I) [] ex = "psp" -> Psp(I) [] ex = "alp" -> Alp(I)
=============================================================================
