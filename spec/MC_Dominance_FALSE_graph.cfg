SPECIFICATION Spec
CONSTANTS Coords = {0, 1} Values = {0, 1} Keys = {1, 2} UseValue = FALSE MaxOps = 1 Hist = FALSE
INVARIANTS C10_Front
CHECK_DEADLOCK FALSE
