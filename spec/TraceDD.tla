------------------------------- MODULE TraceDD -------------------------------
(* Outcome-level trace validation of real compilations made in isolation (engine `dd`):         *)
(* one `compile` / `compiled` (/ `cutset`) group per compilation, checked against DDContract.   *)
EXTENDS DDContract, Json, IOUtils
Rec == ndJsonDeserialize(IOEnv.TRACE)
VARIABLES l, I, HT, inp, res, devs, run
vars == <<l, I, HT, inp, res, devs, run>>
Add(d, tags) == IF Cardinality(d) < 60 THEN d \cup {<<t, l, run>> : t \in tags} ELSE d
SP(n) == [st |-> n.st, depth |-> n.depth, value |-> n.value, ub |-> n.ub, path |-> n.path]
Init == l = 1 /\ I = <<>> /\ HT = <<>> /\ inp = <<>> /\ res = <<>> /\ devs = {} /\ run = 0
Ev(e) == l <= Len(Rec) /\ Rec[l].ev = e /\ l' = l + 1
TReset == /\ Ev("reset") /\ I' = Rec[l].inst /\ HT' = HTable(Rec[l].inst) /\ run' = Rec[l].run
          /\ inp' = <<>> /\ res' = <<>>
          /\ devs' = (IF WellFormed(I', HT') THEN devs ELSE Add(devs, {"HARNESS ill-formed-instance"}))
TCompile == /\ Ev("compile") /\ LET e == Rec[l] IN inp' = [type |-> e.type, width |-> e.width, root |-> SP(e.root), best_lb |-> e.best_lb]
            /\ res' = <<>> /\ UNCHANGED <<I, HT, devs, run>>
TCompiled == /\ Ev("compiled")
             /\ LET e == Rec[l]
                    r == IF e.ok THEN [ok |-> TRUE, exact |-> e.exact, bv |-> e.bv, bev |-> e.bev, bsol |-> e.bsol, besol |-> e.besol]
                         ELSE [ok |-> FALSE] IN
                /\ res' = r
                /\ devs' = Add(devs, CompileTags(I, HT, inp, r)
                                     \cup (IF e.ok /\ (e.exact # e.is_exact \/ e.cval # e.bv) THEN {"DIV completion-inconsistent-with-accessors"} ELSE {}))
             /\ UNCHANGED <<I, HT, inp, run>>
TCutset == /\ Ev("cutset")
           /\ devs' = Add(devs, CutsetTags(I, HT, inp, res, {SP(Rec[l].nodes[i]) : i \in DOMAIN Rec[l].nodes}))
           /\ UNCHANGED <<I, HT, inp, res, run>>
TPanic == /\ Ev("panic")
          /\ devs' = Add(devs, {IF Rec[l].where = "drain" THEN "C08 panic" ELSE IF inp # <<>> /\ inp.type = "relaxed" THEN "C06 panic" ELSE "C07 panic"})
          /\ UNCHANGED <<I, HT, inp, res, run>>
Next == TReset \/ TCompile \/ TCompiled \/ TCutset \/ TPanic
Spec == Init /\ [][Next]_vars
Report == l = Len(Rec) + 1 => PrintT(<<"RESULT", ToJson([total |-> Len(Rec), devs |-> devs])>>)
Accepted == TLCGet("stats").diameter - 1 = Len(Rec)
=============================================================================
