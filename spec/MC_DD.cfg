SPECIFICATION Spec
CONSTANTS Widths = {1, 2, 3} Cuts = {"lel", "fc"}
INVARIANTS Contract C13_Width C12_Arcs
CHECK_DEADLOCK FALSE
