SPECIFICATION Spec
CONSTANTS States = {"a", "b"} Depths = {0, 1} Values = {0, 1} MaxOps = 1 Hist = FALSE
CHECK_DEADLOCK FALSE
