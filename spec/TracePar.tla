------------------------------ MODULE TracePar ------------------------------
(* Trace validation of real ParallelSolver runs (engine `par`): scheduled runs (level "full":    *)
(* one worker runs at a time, every event totally ordered) and free-running runs (level          *)
(* "locked": only the events emitted while the critical mutex is held, ordered by it).           *)
(* Every critical section of parallel.rs is replayed through ParBnB.tla's operators; the scalar  *)
(* snapshot taken by the hook right after each lock acquisition must agree with the state the    *)
(* specification predicts (scheduled mode), and is adopted in any case.                          *)
EXTENDS ParBnB, DDContract, DominanceStore, Json, IOUtils
Rec == ndJsonDeserialize(IOEnv.TRACE)
VARIABLES l, I, HT, cfg, run, role, level, P, wk, fired, primalMax, store, devs,
          ever,      \* <<depth, q>> -> largest value with which that sub-problem was ever put on the fringe in this run
          pendW,     \* thresholds written since the last quiescent point (C09 unsound-threshold)
          held       \* the warm-start solution the solver must hold (C14: replaced only by a strictly greater value)
vars == <<l, I, HT, cfg, run, role, level, P, wk, fired, primalMax, store, devs, ever, pendW, held>>
None == <<>>
MaxW == 17
Add(d, tags) == IF Cardinality(d) < 60 THEN d \cup {<<t, l, run, "-">> : t \in tags} ELSE d
SP(n) == [st |-> n.st, depth |-> n.depth, value |-> n.value, ub |-> n.ub, path |-> n.path]
Full == level = "full"
Isolated == ~cfg.cache /\ ~cfg.dom
W0 == [node |-> None, sec |-> "-", bev |-> NegInf, phase |-> "idle", cand |-> None, inp |-> None, res |-> None, exited |-> FALSE, parked |-> FALSE, badsol |-> FALSE]
EmptyP == [fringe |-> EmptyBag, table |-> CEmpty, ongoing |-> 0, explored |-> 0, bestLb |-> NegInf, hasSol |-> FALSE, bestUb |-> PosInf, abort |-> FALSE,
           open |-> <<>>, ongoingBy |-> <<>>, first |-> 0, ubVec |-> <<>>]
Init == /\ l = 1 /\ I = None /\ HT = None /\ cfg = None /\ run = 0 /\ role = "-" /\ level = "full" /\ P = EmptyP
        /\ wk = [w \in 0..MaxW |-> W0] /\ fired = FALSE /\ primalMax = NegInf /\ store = <<>> /\ devs = {} /\ ever = <<>> /\ pendW = {} /\ held = None
Ev(e) == l <= Len(Rec) /\ Rec[l].ev = e /\ l' = l + 1
Me == Rec[l].w

TReset ==
  /\ Ev("reset")
  /\ LET e == Rec[l] IN
     /\ I' = e.inst /\ HT' = (IF e.inst = I THEN HT ELSE HTable(e.inst))
     /\ cfg' = e.cfg /\ run' = e.run /\ role' = e.role /\ level' = e.level
     /\ P' = [EmptyP EXCEPT !.open = [d \in 0..e.inst.n |-> 0], !.ongoingBy = [d \in 0..e.inst.n |-> 0], !.ubVec = [w \in 1..e.cfg.nspawn |-> Idle]]
     /\ wk' = [w \in 0..MaxW |-> W0] /\ fired' = FALSE /\ primalMax' = NegInf /\ store' = <<>> /\ ever' = <<>> /\ pendW' = {} /\ held' = None
     /\ devs' = (IF e.inst = I \/ WellFormed(I', HT') THEN devs ELSE Add(devs, {"HARNESS ill-formed-instance"}))
Same2 == UNCHANGED <<I, HT, cfg, run, role, level, store, held>>
Same == Same2 /\ UNCHANGED <<ever, pendW>>
SameBut == UNCHANGED <<I, HT, cfg, run, role, level, ever, pendW, held>>
\* ---- C09, threshold soundness (see TraceSeq): a recorded threshold (d, q) -> theta is sound iff every completion of q from theta (theta - 1
\* when not marked explored) is worth no more than the incumbent or runs through a sub-problem that was enqueued with at least the value the
\* completion reaches it with.  Thresholds of one worker may rest on thresholds of another one whose cut-set is not enqueued yet: they are
\* judged at quiescent points (no node in progress) and at the end of an uninterrupted run.
Monitored == Full /\ cfg.cache /\ ~cfg.dom /\ StaticOrder(I) /\ ~I.long_arcs
RECURSIVE Useless(_, _, _, _)
Useless(d, q, a, lb) ==
  IF Plus(a, HStar(I, HT, d, q)) <= lb THEN TRUE
  ELSE IF <<d, q>> \in DOMAIN ever /\ a <= ever[<<d, q>>] THEN TRUE
  ELSE IF d >= I.n THEN FALSE
  ELSE \A x \in DomQ(I, d, q) : Useless(d + 1, TrQ(I, d, q, x), Plus(a, CoQ(I, d, q, x)), lb)
ThresholdTags(lb) == Tag(Monitored /\ \E w \in pendW : ~Useless(w.d, w.q, IF w.e THEN w.v ELSE w.v - 1, lb), "C09 unsound-threshold")

TPrimal == /\ Ev("set_primal") /\ P' = PPrimal(P, Rec[l].value) /\ primalMax' = Max2(primalMax, Rec[l].value)
           /\ held' = (IF Rec[l].value > P.bestLb THEN Rec[l].sol.decs ELSE held)
           /\ devs' = Add(devs, Tag(Rec[l].lb_after # P'.bestLb, "C14 set-primal-value")
                                \* replaced only when strictly greater: on an equal (or smaller) value the earlier solution stays
                                \cup Tag(Rec[l].sol_after.decs # held', "C14 set-primal-solution"))
           /\ UNCHANGED <<I, HT, cfg, run, role, level, store, ever, pendW, wk, fired>>
TDQuery ==
  /\ Ev("dquery")
  /\ LET e == Rec[l]  c == DomCoords(I, e.st)  k == DomKey(I, e.st)
         front == DFront(store, e.depth, k)
         exp == k # NoDKey /\ IsDominated(front, c, e.value, TRUE) IN
     /\ devs' = Add(devs, Tag(Full /\ e.dominated # exp, "C10 verdict") \cup Tag(Full /\ e.dominated /\ exp /\ ~ThresholdSound(front, c, e.value, e.threshold, TRUE), "C10 threshold"))
     /\ store' = (IF e.dominated \/ k = NoDKey THEN store ELSE DSet(store, e.depth, k, DInsert(front, c, e.value, TRUE)))
  /\ SameBut /\ UNCHANGED <<P, wk, fired, primalMax>>
TNoop == /\ (Ev("cinit") \/ Ev("wstart") \/ Ev("notified") \/ Ev("dclear_layer") \/ Ev("poll"))
         /\ Same /\ UNCHANGED <<P, wk, fired, primalMax, devs>>
TCutoff == Ev("cutoff_fires") /\ fired' = TRUE /\ Same /\ UNCHANGED <<P, wk, primalMax, devs>>

\* ------------------------------------------------------------------ lock acquisition: snapshot
SnapTags(e) ==
  IF ~Full THEN {}
  ELSE Tag(e.ongoing # P.ongoing, "DIV snapshot-ongoing") \cup Tag(e.fringe_len # FLen(P.fringe), "DIV snapshot-fringe-len")
       \cup Tag(e.best_lb # P.bestLb, "DIV snapshot-best-lb") \cup Tag(e.best_ub # P.bestUb, "DIV snapshot-best-ub")
       \cup Tag(e.aborted # P.abort, "DIV snapshot-aborted") \cup Tag(e.explored # P.explored, "DIV snapshot-explored")
       \cup Tag(e.first_active # P.first, "DIV snapshot-first-active")
Adopt(e) == [P EXCEPT !.ongoing = e.ongoing, !.bestLb = e.best_lb, !.hasSol = (P.hasSol \/ e.best_lb > P.bestLb), !.bestUb = e.best_ub,
                      !.abort = e.aborted, !.explored = e.explored, !.first = e.first_active]
TLocked ==
  /\ Ev("locked")
  /\ LET e == Rec[l]  w == Me  P1 == Adopt(e) IN
     /\ wk' = [wk EXCEPT ![w].sec = e.site, ![w].parked = FALSE, ![w].cand = None,
                         ![w].node = IF e.site = "finish" THEN None ELSE @, ![w].phase = IF e.site = "finish" THEN "idle" ELSE @]
     /\ P' = CASE e.site = "update_best" -> PUpdate(P1, wk[w].bev)
               [] e.site = "finish" -> IF wk[w].node # None THEN PFinish(P1, w, wk[w].node.depth) ELSE P1
               [] e.site = "abort" -> IF wk[w].node # None THEN [P1 EXCEPT !.abort = TRUE, !.bestUb = PAbortUb(P1, w, wk[w].node.ub)] ELSE [P1 EXCEPT !.abort = TRUE]
               [] OTHER -> P1
     /\ LET quiet == e.site = "finish" /\ P'.ongoing = 0 /\ ~fired /\ ~P'.abort IN
        /\ devs' = Add(devs, SnapTags(e) \cup (IF quiet THEN ThresholdTags(P'.bestLb) ELSE {})
                             \* maybe_update_best adopts the diagram's best exact solution: it must be a feasible solution of that value
                             \cup Tag(e.site = "update_best" /\ wk[w].bev > P1.bestLb /\ wk[w].badsol, "C02 infeasible-solution-adopted"))
        /\ pendW' = (IF e.site = "finish" /\ P'.ongoing = 0 THEN {} ELSE pendW)
  /\ Same2 /\ UNCHANGED <<fired, primalMax, ever>>

\* ------------------------------------------------------------------ fringe operations (always under the lock)
LenTags(its) == Tag(FLen(its) # Rec[l].len, "C11 len")
TPush ==
  /\ Ev("push")
  /\ LET sp == SP(Rec[l].node)  w == Me
         f2 == FPush(cfg.fringe, P.fringe, Item(sp))
         grow == FLen(f2) - FLen(P.fringe)
         parent == wk[w].node IN
     /\ P' = [P EXCEPT !.fringe = f2, !.open[sp.depth] = P.open[sp.depth] + grow]
     /\ devs' = Add(devs, LenTags(f2)
                  \* enqueue_cutset: bound capped by the parent's and still able to beat the incumbent
                  \cup Tag(Full /\ w # 0 /\ parent # None /\ (sp.ub > parent.ub \/ sp.ub <= P.bestLb), "DIV enqueued-node-bound"))
     /\ ever' = (LET k == <<sp.depth, Q(I, sp.st)>> IN
                 [j \in (DOMAIN ever) \cup {k} |-> IF j = k THEN (IF k \in DOMAIN ever THEN Max2(ever[k], sp.value) ELSE sp.value) ELSE ever[j]])
  /\ Same2 /\ UNCHANGED <<wk, fired, primalMax, pendW>>
Live(n, lb, table) == SpOpt(I, HT, n) = Opt(I, HT) /\ n.ub > lb /\ (~cfg.cache \/ MustExplore(table, n))
Flying == {wk[w].node : w \in {v \in 1..cfg.nspawn : wk[v].phase = "work"}}
RouteTags(P1, taken) ==
  Tag(Full /\ cfg.cache /\ P1.bestLb < Opt(I, HT)
      /\ SpOpt(I, HT, taken) # Opt(I, HT)
      /\ (~\E n \in Flying : SpOpt(I, HT, n) = Opt(I, HT))
      /\ (~\E x \in BagToSet(P1.fringe) : Live([st |-> x.st, depth |-> x.depth, value |-> x.value, ub |-> x.ub], P1.bestLb, P1.table)),
      "C09 last-route-discarded")
TPop ==
  /\ Ev("pop")
  /\ LET sp == SP(Rec[l].node)  w == Me
         cands == {x \in Poppable(P.fringe) : Matches(sp, x)}
         same == {x \in BagToSet(P.fringe) : x.st = sp.st /\ x.depth = sp.depth}
         x == IF cands # {} THEN CHOOSE y \in cands : TRUE ELSE IF same # {} THEN CHOOSE y \in same : TRUE ELSE Item(sp)
         P1 == IF cands # {} \/ same # {} THEN PPopped(P, x) ELSE P
         \* a candidate popped earlier in this same get_workload call and not taken was skipped through the cache
         P2 == IF wk[w].sec = "get_workload" /\ wk[w].cand # None THEN PSkipped(P1, wk[w].cand) ELSE P1 IN
     /\ P' = P2
     /\ wk' = [wk EXCEPT ![w].cand = IF wk[w].sec = "get_workload" THEN sp ELSE None]
     /\ devs' = Add(devs, LenTags(P2.fringe)
                  \cup Tag(cands = {}, IF \E y \in BagToSet(P.fringe) : Matches(sp, y) THEN "C11 pop-not-max"
                                       ELSE IF same # {} THEN "C11 pop-altered-item" ELSE "C11 pop-invented")
                  \cup Tag(Full /\ wk[w].sec = "get_workload" /\ wk[w].cand # None /\ (~cfg.cache \/ MustExplore(P.table, wk[w].cand)), "DIV node-dropped-without-reason"))
  /\ Same /\ UNCHANGED <<fired, primalMax>>
TPopNone == /\ Ev("pop_none") /\ devs' = Add(devs, Tag(P.fringe # EmptyBag, "C11 lost-items")) /\ Same /\ UNCHANGED <<P, wk, fired, primalMax>>
\* the fringe is emptied legitimately when the best open node cannot beat the incumbent (then none can) or when the search is aborted;
\* emptying it while it holds a node whose bound exceeds the incumbent throws away a part of the search space that may hold the optimum
TFClear == /\ Ev("fclear") /\ P' = [P EXCEPT !.fringe = EmptyBag]
           /\ devs' = Add(devs, Tag(~fired /\ ~P.abort /\ \E x \in BagToSet(P.fringe) : x.ub > P.bestLb, "C03 open-nodes-discarded"))
           /\ Same /\ UNCHANGED <<wk, fired, primalMax>>

\* ------------------------------------------------------------------ outcome of get_workload
TWorkload ==
  /\ Ev("workload")
  /\ LET e == Rec[l]  w == Me  c == wk[w].cand IN
     CASE e.what = "complete" ->
            /\ devs' = Add(devs, Tag(P.ongoing # 0 \/ P.fringe # EmptyBag, "C04 complete-while-work-remains")
                                 \cup Tag(P.abort, "DIV complete-after-abort"))
            /\ P' = PComplete(P) /\ wk' = wk
       [] e.what = "aborted" -> /\ devs' = Add(devs, Tag(~P.abort, "DIV aborted-without-abort")) /\ P' = P /\ wk' = wk
       [] e.what = "cleared" ->
            /\ devs' = Add(devs, Tag(Full /\ c # None /\ c.ub > P.bestLb, "DIV fringe-cleared-without-reason"))
            /\ P' = [P EXCEPT !.open = [d \in DOMAIN P.open |-> 0]] /\ wk' = [wk EXCEPT ![w].cand = None]
       [] e.what = "skipped_all" ->
            /\ devs' = Add(devs, Tag(Full /\ c # None /\ (~cfg.cache \/ MustExplore(P.table, c)), "DIV node-dropped-without-reason"))
            /\ P' = (IF c # None THEN PSkipped(P, c) ELSE P) /\ wk' = [wk EXCEPT ![w].cand = None]
       [] e.what = "work" ->
            /\ devs' = Add(devs, Tag(c = None, "DIV work-without-pop")
                                 \cup (IF c # None THEN RouteTags(P, c) ELSE {})
                                 \cup Tag(Full /\ c # None /\ c.ub <= P.bestLb, "DIV took-node-that-cannot-improve"))
            /\ P' = (IF c # None THEN PWork(P, w, c) ELSE P)
            /\ wk' = [wk EXCEPT ![w].node = c, ![w].cand = None, ![w].phase = "work", ![w].bev = NegInf]
       [] OTHER -> /\ devs' = Add(devs, {"DIV unknown-workload"}) /\ P' = P /\ wk' = wk
  /\ Same /\ UNCHANGED <<fired, primalMax>>
TWait == /\ Ev("wait") /\ wk' = [wk EXCEPT ![Me].parked = TRUE]
         /\ devs' = Add(devs, Tag(P.fringe # EmptyBag, "DIV waits-with-open-nodes") \cup Tag(P.ongoing = 0, "DIV waits-while-nothing-in-progress"))
         /\ Same /\ UNCHANGED <<P, fired, primalMax>>

\* ------------------------------------------------------------------ cache operations (scheduled mode only: totally ordered)
TCGet ==
  /\ Ev("cget")
  /\ LET e == Rec[l]  exp == IF cfg.cache THEN CGet(P.table, e.depth, e.st) ELSE NoTh  got == <<e.ret[1], e.ret[2]>> IN
     /\ devs' = Add(devs, Tag(got # exp, "C18 read"))
     /\ P' = (IF got = exp \/ ~cfg.cache THEN P
              ELSE IF got = NoTh THEN [P EXCEPT !.table = [k \in (DOMAIN P.table) \ {<<e.depth, e.st>>} |-> P.table[k]]]
              ELSE [P EXCEPT !.table = [k \in (DOMAIN P.table) \cup {<<e.depth, e.st>>} |-> IF k = <<e.depth, e.st>> THEN got ELSE P.table[k]]])
  /\ Same /\ UNCHANGED <<wk, fired, primalMax>>
TCUpd == /\ Ev("cupd")
         /\ LET e == Rec[l] IN
              /\ P' = (IF cfg.cache THEN [P EXCEPT !.table = CUpd(P.table, e.depth, e.st, <<e.value, e.explored>>)] ELSE P)
              /\ pendW' = (IF Monitored THEN pendW \cup {[d |-> e.depth, q |-> Q(I, e.st), v |-> e.value, e |-> e.explored]} ELSE pendW)
         /\ Same2 /\ UNCHANGED <<wk, fired, primalMax, devs, ever>>
TCClearLayer == /\ Ev("cclear_layer") /\ P' = [P EXCEPT !.table = CClearLayer(P.table, Rec[l].depth), !.first = Max2(P.first, Rec[l].depth + 1)]
                /\ devs' = Add(devs, Tag(Full /\ Rec[l].depth \in DOMAIN P.open /\ P.open[Rec[l].depth] + P.ongoingBy[Rec[l].depth] # 0, "DIV cache-layer-cleared-while-active"))
                /\ Same /\ UNCHANGED <<wk, fired, primalMax>>
TCClear == /\ Ev("cclear") /\ P' = [P EXCEPT !.table = CEmpty] /\ Same /\ UNCHANGED <<wk, fired, primalMax, devs>>

\* ------------------------------------------------------------------ compilations (outside the lock)
TCompile ==
  /\ Ev("compile")
  /\ LET e == Rec[l]  w == Me  i == [type |-> e.type, width |-> e.width, root |-> SP(e.root), best_lb |-> e.best_lb] IN
     /\ wk' = [wk EXCEPT ![w].inp = i, ![w].res = None]
     /\ devs' = Add(devs, Tag(wk[w].node = None \/ i.root # wk[w].node, "DIV compiled-node-is-not-the-popped-one")
                          \cup Tag(e.best_lb # P.bestLb, "DIV incumbent-handed-to-compilation"))
  /\ Same /\ UNCHANGED <<P, fired, primalMax>>
TCompiled ==
  /\ Ev("compiled")
  /\ LET e == Rec[l]  w == Me
         r == IF e.ok THEN [ok |-> TRUE, exact |-> e.exact, bv |-> e.bv, bev |-> e.bev, bsol |-> e.bsol, besol |-> e.besol] ELSE [ok |-> FALSE] IN
     /\ wk' = [wk EXCEPT ![w].res = r, ![w].bev = IF e.ok THEN e.bev ELSE NegInf,
                         ![w].badsol = e.ok /\ e.besol.some /\ ~FeasibleSolution(I, e.besol.decs, e.bev)]
     /\ devs' = Add(devs, (IF Isolated /\ wk[w].inp # None THEN CompileTags(I, HT, wk[w].inp, r)
                           ELSE IF e.ok THEN Tag(e.besol.some /\ ~FeasibleSolution(I, e.besol.decs, e.bev), "C02 incumbent-candidate-infeasible") ELSE {}))
  /\ Same /\ UNCHANGED <<P, fired, primalMax>>
TCutset ==
  /\ Ev("cutset")
  /\ LET cs == {SP(Rec[l].nodes[i]) : i \in DOMAIN Rec[l].nodes}  w == Me IN
     /\ devs' = Add(devs, (IF Isolated  /\ wk[w].inp # None /\ wk[w].res # None
                           THEN CutsetTags(I, HT, wk[w].inp, wk[w].res, cs) ELSE {})
                          \cup Tag(\E c \in cs : ~ExactSubProblem(I, c), "C08 node-not-exact"))
     /\ wk' = [wk EXCEPT ![w].phase = "enqueued"]
  /\ Same /\ UNCHANGED <<P, fired, primalMax>>
TExit == /\ Ev("wexit")
         /\ wk' = [wk EXCEPT ![Me].exited = TRUE]
         /\ devs' = Add(devs, Tag(Rec[l].panicked, "C04 worker-crashed"))
         /\ Same /\ UNCHANGED <<P, fired, primalMax>>

\* ------------------------------------------------------------------ verdicts of the scheduler and outcome
TStuck == /\ Ev("stuck")
          /\ devs' = Add(devs, {IF Rec[l].verdict = "deadlock" THEN "C04 deadlock" ELSE IF Rec[l].verdict = "livelock" THEN "C04 livelock" ELSE "C04 hang"})
          /\ Same /\ UNCHANGED <<P, wk, fired, primalMax>>
Sig(r) == IF cfg.dd = "pooled" /\ I.long_arcs /\ (r.root_in_cutset \/ r.watchdog) THEN "D5" ELSE "-"
RetTags(r) ==
  LET opt == Opt(I, HT)
      cut == r.cutoff_fired
      val == IF r.has_value THEN r.best_value ELSE NegInf
      goal == Max2(opt, primalMax)
      own == r.has_value /\ (primalMax = NegInf \/ val > primalMax)
  IN Tag(r.panicked, "C04 maximize-panicked") \cup Tag(r.panicked /\ ~r.cutoff_fired, "C03 panic")
     \cup Tag(r.panicked /\ cfg.dom, "C10 panic") \cup Tag(r.panicked /\ cfg.cache /\ ~cfg.dom, "C09 panic")
     \cup (IF r.panicked THEN {} ELSE
           Tag(r.has_value # r.sol.some, "C02 solution-iff-value")
      \cup Tag(r.has_value /\ (r.best_value # r.best_lb \/ r.cval # r.best_value), "C02 value-lb-completion-differ")
      \cup Tag(~r.has_value /\ ~IsNegInf(r.cval), "C02 value-lb-completion-differ")
      \cup Tag(own /\ ~FeasibleSolution(I, r.sol.decs, val), "C02 solution-infeasible-or-wrong-value")
      \cup Tag(~cut /\ ~r.watchdog /\ r.has_value /\ r.best_ub # val, "C02 upper-bound-after-complete-run")
      \cup Tag(~cut /\ r.watchdog, "C04 non-termination")
      \cup Tag(~cut /\ ~r.watchdog /\ ~r.is_exact, "C03 not-exact")
      \cup Tag(~cut /\ ~r.watchdog /\ primalMax = NegInf /\ val # opt, "C03 wrong-optimum")
      \cup Tag(~cut /\ ~r.watchdog /\ primalMax # NegInf /\ (val # goal \/ ~r.is_exact), "C14 final-value-with-warm-start")
      \cup Tag(cut /\ ~(r.best_lb <= opt /\ opt <= r.best_ub), "C05 bounds-unsound")
      \cup Tag(cut /\ r.has_value /\ ~FeasibleSolution(I, r.sol.decs, r.best_lb), "C05 solution-infeasible")
      \cup Tag(cut /\ r.is_exact /\ val # opt, "C05 exact-claim-wrong")
      \cup Tag(~cut /\ cfg.cache /\ ~I.long_arcs /\ val # opt, "C09 caching-run-not-optimal"))
TReturn ==
  /\ Ev("return")
  /\ LET r == Rec[l]
         endTags == IF Full /\ ~r.panicked /\ ~r.again THEN Tag(P.bestLb # r.best_lb, "DIV incumbent-differs-from-trace") \cup Tag(P.bestUb # r.best_ub, "DIV upper-bound-differs-from-trace")
                                                \cup Tag(\E w \in 1..cfg.nspawn : ~wk[w].exited, "DIV worker-did-not-exit")
                    ELSE {} IN
     devs' = (IF Cardinality(devs) < 60 THEN devs \cup {<<t, l, run, Sig(r)>> : t \in RetTags(r) \cup endTags
                                                       \cup (IF r.panicked \/ r.cutoff_fired \/ r.watchdog \/ fired \/ P.abort THEN {} ELSE ThresholdTags(P.bestLb))} ELSE devs)
  /\ pendW' = {}
  /\ Same2 /\ UNCHANGED <<P, wk, fired, primalMax, ever>>

Next == TReset \/ TPrimal \/ TDQuery \/ TNoop \/ TCutoff \/ TLocked \/ TPush \/ TPop \/ TPopNone \/ TFClear \/ TWorkload \/ TWait
        \/ TCGet \/ TCUpd \/ TCClearLayer \/ TCClear \/ TCompile \/ TCompiled \/ TCutset \/ TExit \/ TStuck \/ TReturn
Spec == Init /\ [][Next]_vars
Report == l = Len(Rec) + 1 => PrintT(<<"RESULT", ToJson([total |-> Len(Rec), devs |-> devs])>>)
Accepted == TLCGet("stats").diameter - 1 = Len(Rec)
=============================================================================
