SPECIFICATION Spec
CONSTANTS Coords = {0, 1, 2} Values = {0, 1, 2} Keys = {1, 2} UseValue = TRUE MaxOps = 4 Hist = TRUE
INVARIANTS C10_Front C10_Pareto C10_VerdictMonotone
CHECK_DEADLOCK FALSE
