------------------------------ MODULE NoDupHeap ------------------------------
(* Algorithm-level model of fringe/no_duplicate.rs: the hand-written updatable binary heap       *)
(* (`nodes` payload vector, `pos` position table, `heap` vector of node ids, `states` index,     *)
(* recycle bin; bubble_up / bubble_down / parent / max_child_of exactly as in the code, with the *)
(* index on (state, depth) of the repaired code).  TLC checks the data-structure invariants and  *)
(* that the algorithm REFINES Fringe.tla's duplicate-free fringe: the node returned by pop is a  *)
(* maximum of the abstract contents, which are maintained by FPush / FPop.                       *)
EXTENDS Fringe
CONSTANTS KStates, KDepths, Values, Ubs, MaxSize, MaxOps
Keys == KStates \X KDepths
\* positions are 0-based as in the code: heap, pos and nodes are functions on 0..n-1
VARIABLES nodes, pos, heap, states, bin, abs, nops, lastPop, lastPoppable
vars == <<nodes, pos, heap, states, bin, abs, nops, lastPop, lastPoppable>>
Size(f) == Cardinality(DOMAIN f)
Rank(k) == k[2] * 10 + k[1]                       \* any total order on keys (the state ranking); key = <<state, depth>>
\* MaxUB: ub, then value, then the state ranking
Cmp(a, b) == IF a.ub # b.ub THEN (IF a.ub > b.ub THEN 1 ELSE -1)
             ELSE IF a.value # b.value THEN (IF a.value > b.value THEN 1 ELSE -1)
             ELSE IF Rank(a.key) # Rank(b.key) THEN (IF Rank(a.key) > Rank(b.key) THEN 1 ELSE -1) ELSE 0
CmpAt(h, n, x, y) == Cmp(n[h[x]], n[h[y]])
Parent(p) == IF p = 0 THEN p ELSE IF p % 2 = 1 THEN p \div 2 ELSE p \div 2 - 1
MaxChild(h, n, p) == LET size == Size(h)  left == 2 * p + 1  right == 2 * p + 2 IN
                     IF left >= size THEN 0 ELSE IF right >= size THEN left ELSE IF CmpAt(h, n, left, right) = 1 THEN left ELSE right
Swap(hp, a, b) == [heap |-> [hp.heap EXCEPT ![a] = hp.heap[b], ![b] = hp.heap[a]],
                   pos |-> [hp.pos EXCEPT ![hp.heap[a]] = b, ![hp.heap[b]] = a]]
RECURSIVE BubbleUp(_, _, _)
BubbleUp(hp, n, me) == IF me # 0 /\ CmpAt(hp.heap, n, me, Parent(me)) = 1 THEN BubbleUp(Swap(hp, me, Parent(me)), n, Parent(me)) ELSE hp
RECURSIVE BubbleDown(_, _, _)
BubbleDown(hp, n, me) == LET kid == MaxChild(hp.heap, n, me) IN
                         IF kid > 0 /\ CmpAt(hp.heap, n, me, kid) = -1 THEN BubbleDown(Swap(hp, me, kid), n, kid) ELSE hp
AbsItem(x, id) == [st |-> x.key[1], depth |-> x.key[2], value |-> x.value, ub |-> x.ub, paths |-> {x.path}]
Init == /\ nodes = <<>> /\ pos = <<>> /\ heap = <<>> /\ states = <<>> /\ bin = <<>> /\ abs = EmptyBag /\ nops = 0
        /\ lastPop = <<>> /\ lastPoppable = {}
Ext(f, k, v) == [x \in (DOMAIN f) \cup {k} |-> IF x = k THEN v ELSE f[x]]
Push(key, v, u) ==
  /\ nops < MaxOps /\ Size(heap) < MaxSize
  /\ LET node == [key |-> key, value |-> v, ub |-> u, path |-> nops] IN
     IF key \in DOMAIN states
     THEN LET id == states[key]  old == nodes[id]
              node2 == [node EXCEPT !.ub = IF u > old.ub THEN u ELSE old.ub]
              up == Cmp(node2, old) = 1
              n1 == IF v > old.value THEN [nodes EXCEPT ![id] = node2] ELSE nodes
              n2 == IF u > old.ub THEN [n1 EXCEPT ![id].ub = u] ELSE n1
              hp == IF up THEN BubbleUp([heap |-> heap, pos |-> pos], n2, pos[id]) ELSE [heap |-> heap, pos |-> pos] IN
          /\ nodes' = n2 /\ heap' = hp.heap /\ pos' = hp.pos /\ UNCHANGED <<states, bin>>
     ELSE LET fresh == bin = <<>>
              id == IF fresh THEN Size(nodes) ELSE bin[Len(bin)]
              n1 == Ext(nodes, id, node)
              p1 == Ext(pos, id, Size(heap))
              h1 == Ext(heap, Size(heap), id)
              hp == BubbleUp([heap |-> h1, pos |-> p1], n1, Size(heap)) IN
          /\ nodes' = n1 /\ heap' = hp.heap /\ pos' = hp.pos /\ states' = Ext(states, key, id)
          /\ bin' = IF fresh THEN bin ELSE SubSeq(bin, 1, Len(bin) - 1)
  /\ abs' = FPush("nodup", abs, [st |-> key[1], depth |-> key[2], value |-> v, ub |-> u, paths |-> {nops}])
  /\ nops' = nops + 1 /\ UNCHANGED <<lastPop, lastPoppable>>
Pop ==
  /\ nops < MaxOps /\ Size(heap) > 0
  /\ LET id == heap[0]  last == Size(heap) - 1
         \* swap_remove(0): the last element takes position 0
         h1 == [i \in 0..(last - 1) |-> IF i = 0 THEN heap[last] ELSE heap[i]]
         p1 == IF last = 0 THEN pos ELSE [pos EXCEPT ![heap[last]] = 0]
         hp == IF last = 0 THEN [heap |-> h1, pos |-> p1] ELSE BubbleDown([heap |-> h1, pos |-> p1], nodes, 0)
         out == nodes[id] IN
     /\ heap' = hp.heap /\ pos' = hp.pos /\ bin' = Append(bin, id) /\ UNCHANGED nodes
     /\ states' = [k \in (DOMAIN states) \ {out.key} |-> states[k]]
     /\ lastPop' = out /\ lastPoppable' = Poppable(abs)
     /\ abs' = (IF \E x \in BagToSet(abs) : x.st = out.key[1] /\ x.depth = out.key[2]
                THEN FPop(abs, CHOOSE x \in BagToSet(abs) : x.st = out.key[1] /\ x.depth = out.key[2]) ELSE abs)
  /\ nops' = nops + 1
Clear == /\ nops < MaxOps /\ nodes' = <<>> /\ pos' = <<>> /\ heap' = <<>> /\ states' = <<>> /\ bin' = <<>> /\ abs' = EmptyBag
         /\ nops' = nops + 1 /\ UNCHANGED <<lastPop, lastPoppable>>
Next == (\E k \in Keys, v \in Values, u \in Ubs : Push(k, v, u)) \/ Pop \/ Clear
Spec == Init /\ [][Next]_vars
\* ---- data-structure invariants
HeapInv == \A i \in DOMAIN heap : i = 0 \/ CmpAt(heap, nodes, i, (i - 1) \div 2) # 1            \* no node beats its true parent
PosInv == \A i \in DOMAIN heap : pos[heap[i]] = i
StatesInv == /\ \A k \in DOMAIN states : \E i \in DOMAIN heap : heap[i] = states[k] /\ nodes[states[k]].key = k
             /\ \A i \in DOMAIN heap : nodes[heap[i]].key \in DOMAIN states /\ states[nodes[heap[i]].key] = heap[i]
DenseInv == DOMAIN heap = 0..(Size(heap) - 1)
\* ---- refinement of Fringe.tla: same contents, and what pop returns is an abstract maximum with the right value / ub / path
ContentsInv == {[st |-> nodes[heap[i]].key[1], depth |-> nodes[heap[i]].key[2], value |-> nodes[heap[i]].value, ub |-> nodes[heap[i]].ub] : i \in DOMAIN heap}
               = {[st |-> x.st, depth |-> x.depth, value |-> x.value, ub |-> x.ub] : x \in BagToSet(abs)}
PathInv == \A i \in DOMAIN heap : \E x \in BagToSet(abs) : x.st = nodes[heap[i]].key[1] /\ x.depth = nodes[heap[i]].key[2] /\ nodes[heap[i]].path \in x.paths
C11_PopIsMax == lastPop = <<>> \/ \E x \in lastPoppable : x.st = lastPop.key[1] /\ x.depth = lastPop.key[2] /\ x.value = lastPop.value /\ x.ub = lastPop.ub /\ lastPop.path \in x.paths
C11_Len == Size(heap) = FLen(abs)
=============================================================================
