----------------------------- MODULE MC_Fringe -----------------------------
(* Generative model of one fringe: all push / pop / clear histories over a small alphabet.    *)
(* Its state graph (tlc -dump dot,actionlabels) is the source of the operation sequences       *)
(* replayed on the real SimpleFringe / NoDupFringe (specification -> implementation).          *)
EXTENDS Fringe
CONSTANTS Kind, States, Depths, Values, Ubs, MaxOps, MaxSize,
          Hist      \* TRUE: history variables and unique paths (bounded by MaxOps); FALSE: the finite graph over fringe contents only
VARIABLES items, nops, pushed, popped, lastPop
vars == <<items, nops, pushed, popped, lastPop>>
NoItem == [st |-> "-", depth |-> 0, value |-> 0, ub |-> 0, paths |-> {}]

Init == items = EmptyBag /\ nops = 0 /\ pushed = EmptyBag /\ popped = EmptyBag /\ lastPop = NoItem
Tick == nops' = IF Hist THEN nops + 1 ELSE 0
Push(s, d, v, u) == /\ nops < MaxOps /\ FLen(items) < MaxSize
                    /\ LET x == [st |-> s, depth |-> d, value |-> v, ub |-> u, paths |-> {nops}] IN
                       /\ items' = FPush(Kind, items, x)
                       /\ pushed' = IF Hist THEN pushed (+) SetToBag({x}) ELSE pushed
                    /\ Tick /\ UNCHANGED <<popped, lastPop>>
Pop(x) == /\ nops < MaxOps /\ x \in Poppable(items)
          /\ items' = FPop(items, x) /\ popped' = (IF Hist THEN popped (+) SetToBag({x}) ELSE popped) /\ lastPop' = (IF Hist THEN x ELSE lastPop)
          /\ Tick /\ UNCHANGED pushed
PopEmpty == /\ nops < MaxOps /\ items = EmptyBag /\ Tick /\ UNCHANGED <<items, pushed, popped, lastPop>>
Clear == /\ nops < MaxOps /\ items' = EmptyBag /\ pushed' = EmptyBag /\ popped' = EmptyBag /\ lastPop' = NoItem
         /\ Tick
Next == (\E s \in States, d \in Depths, v \in Values, u \in Ubs : Push(s, d, v, u))
        \/ (\E x \in BagToSet(items) : Pop(x)) \/ PopEmpty \/ Clear
Spec == Init /\ [][Next]_vars

\* ---- C11, stated on the specification itself
C11_Order == [][\A x \in BagToSet(items) : (lastPop' # lastPop /\ lastPop' # NoItem) => ~Better(x, lastPop') \/ x \notin BagToSet(items')]_vars
C11_NoDup == Kind = "nodup" => NoDupInv(items)
\* nothing invented: whatever is in the fringe or was popped descends from a pushed item with the same
\* identity, value and one of its paths, and carries an upper bound that some push of that sub-problem gave
Origin(x) == \E p \in BagToSet(pushed) : SameSP(p, x) /\ p.value = x.value /\ p.paths \subseteq x.paths
UbOrigin(x) == \E p \in BagToSet(pushed) : SameSP(p, x) /\ p.ub = x.ub
C11_NothingInvented == Hist => \A x \in BagToSet(items) \cup BagToSet(popped) : Origin(x) /\ UbOrigin(x)
\* nothing lost: simple = bag equation; nodup = every pushed sub-problem is still there or was popped,
\* with a value at least as large and an upper bound at least as large
C11_NothingLost == Hist =>
  IF Kind = "simple" THEN pushed = items (+) popped
  ELSE \A p \in BagToSet(pushed) : \E x \in BagToSet(items) \cup BagToSet(popped) : SameSP(p, x) /\ x.value >= p.value
C11_UbMax == Hist /\ Kind = "nodup" => \A x \in BagToSet(items) : \A p \in BagToSet(pushed) :
                 (SameSP(p, x) /\ ~\E q \in BagToSet(popped) : SameSP(q, x)) => x.ub >= p.ub
C11_Len == ~Hist \/ FLen(items) = BagCardinality(pushed) - BagCardinality(popped) \/ Kind = "nodup"
=============================================================================
