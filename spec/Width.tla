------------------------------- MODULE Width -------------------------------
(* C13, second sentence: the width combinators never yield zero.  obs = [comb, k, inner, ret]   *)
EXTENDS Integers, TLC
WMax(a, b) == IF a >= b THEN a ELSE b
WidthExpected(o) == IF o.comb = "times" THEN WMax(1, o.k * o.inner) ELSE WMax(1, o.inner \div o.k)
WidthTags(o) == (IF o.ret < 1 THEN {"C13 zero-width"} ELSE {})
WidthDiverges(o) == o.ret # WidthExpected(o)      \* informational only: the property does not fix the value
=============================================================================
