------------------------------ MODULE MC_ParC ------------------------------
(* The composed PARALLEL caching search (C09, C03, C04 on the specification): the workers of     *)
(* solver/parallel.rs, each critical section one atomic step on the record of ParBnB.tla, each    *)
(* compilation carried out layer by layer by the diagram model DD.tla, which reads the SHARED    *)
(* threshold table at every layer (`_filter_with_cache`) while the other workers write it         *)
(* (`_compute_thresholds` of their own diagrams, the explored mark of get_workload, clear_layer).*)
(*                                                                                               *)
(* DD.tla owns one set of variables; a worker that is in the middle of a compilation keeps its   *)
(* diagram in `wk[w].dd` while another one uses the variables (`Switch` = context switch, the    *)
(* only purpose of `act`).  `cacheT` (what DD.tla's filter reads) is kept equal to P.table.      *)
(*                                                                                               *)
(* Grain: one step per critical section, per diagram layer, per finalisation; the cache updates  *)
(* of one finished diagram are published in one step (the code publishes them one by one through *)
(* a concurrent map; every update is a monotone maximum, so a partial publication lies between   *)
(* two states that are explored here).                                                           *)
EXTENDS DD, ParBnB
CONSTANTS W, NoW, Kind,
          Variant,    \* "none" = the code; other values = seeded variants the invariants must reject (tools/selftest.py)
          PartialPublish   \* TRUE: a finished diagram may first publish the thresholds of its deepest layers only (the code publishes
                           \* bottom-up, entry by entry): the other workers also read such intermediate tables
VARIABLES P, wk, act, width
pvars == <<P, wk, act, width>>
allvars == <<vars, pvars>>
NoCur == [st |-> <<>>, depth |-> 0, value |-> 0, ub |-> NegInf, path |-> <<>>]
NoOut == [type |-> "none", exact |-> FALSE, bev |-> NegInf, cs |-> {}]
NullDD == [inp |-> <<>>, nodes |-> <<>>, edges |-> {}, layers |-> <<>>, nextL |-> {}, lel |-> 0, pc |-> "idle", res |-> <<>>, maxExpanded |-> <<>>]
CurDD == [inp |-> inp, nodes |-> nodes, edges |-> edges, layers |-> layers, nextL |-> nextL, lel |-> lel, pc |-> pc, res |-> res, maxExpanded |-> maxExpanded]
LoadDD(r) == /\ inp' = r.inp /\ nodes' = r.nodes /\ edges' = r.edges /\ layers' = r.layers /\ nextL' = r.nextL
             /\ lel' = r.lel /\ pc' = r.pc /\ res' = r.res /\ maxExpanded' = r.maxExpanded
DDUnchanged == UNCHANGED <<inp, nodes, edges, layers, nextL, lel, pc, res, maxExpanded>>
Fixed == UNCHANGED <<ii, HT, cut, width>>

PCInit == /\ ii \in 1..Len(Insts) /\ cut \in Cuts /\ width \in Widths
          /\ HT = HTable(Insts[ii])
          /\ inp = <<>> /\ nodes = <<>> /\ edges = {} /\ layers = <<>> /\ nextL = {} /\ lel = 0 /\ pc = "idle" /\ res = <<>> /\ maxExpanded = <<>>
          /\ cacheT = CEmpty
          /\ P = PInit(Kind, [st |-> StOf(0, RootQ(Insts[ii])), depth |-> 0, value |-> Insts[ii].v0, ub |-> PosInf, path |-> <<>>], Insts[ii].n, W)
          /\ wk = [w \in W |-> [phase |-> "get", cur |-> NoCur, dd |-> NullDD, out |-> NoOut, part |-> FALSE]]
          /\ act = NoW
SP(x) == [st |-> x.st, depth |-> x.depth, value |-> x.value, ub |-> x.ub, path |-> CHOOSE p \in x.paths : TRUE]
QOf(sp) == Q(I, sp.st)

\* ---- get_workload: one critical section, including the loop that skips the nodes the cache rejects
MustExploreV(t, sp) == IF Variant = "strict_must_explore" THEN (CGet(t, sp.depth, sp.st) = NoTh \/ sp.value > CGet(t, sp.depth, sp.st)[1])
                       ELSE MustExplore(t, sp)
RECURSIVE PopOut(_, _, _)
PopOut(w, Pq, x) ==                  \* Pq: the record once x has left the fringe; result: set of <<record, next phase, node>>
  LET sp == SP(x) IN
  IF x.ub <= Pq.bestLb THEN {<<PClearedAll(Pq, N), "get", NoCur>>}
  ELSE IF MustExploreV(Pq.table, sp) THEN {<<PWork(PMarkExplored(Pq, sp), w, sp), "lb1", sp>>}
  ELSE LET P3 == PSkipped(Pq, sp) IN
       IF P3.fringe = EmptyBag THEN {<<P3, IF Variant = "wait_on_skipped_all" THEN "parked" ELSE "get", NoCur>>}
       ELSE UNION {PopOut(w, PPopped(P3, y), y) : y \in Poppable(P3.fringe)}
Get(w) == /\ wk[w].phase = "get"
          /\ LET P1 == PClean(P, N)  kind == PWorkloadKind(P1) IN
             IF kind = "complete" THEN /\ P' = PComplete(P1) /\ wk' = [wk EXCEPT ![w].phase = "exit"]
             ELSE IF kind = "wait" THEN /\ P' = P1 /\ wk' = [wk EXCEPT ![w].phase = "parked"]
             ELSE \E x \in Poppable(P1.fringe) : \E o \in PopOut(w, PPopped(P1, x), x) :
                    /\ P' = o[1] /\ wk' = [wk EXCEPT ![w].phase = o[2], ![w].cur = o[3]]
          /\ cacheT' = P'.table /\ DDUnchanged /\ Fixed /\ UNCHANGED act

\* ---- context switch (specification artefact: who uses DD.tla's variables)
NeedsDD(w) == wk[w].phase \in {"lb1", "lb2", "dd"}
Switch(w) == /\ act # w /\ NeedsDD(w)
             /\ wk' = [v \in W |-> IF v = act THEN [wk[v] EXCEPT !.dd = CurDD] ELSE IF v = w THEN [wk[v] EXCEPT !.dd = NullDD] ELSE wk[v]]
             /\ LoadDD(wk[w].dd) /\ act' = w
             /\ UNCHANGED <<P, cacheT>> /\ Fixed
Release == LoadDD(NullDD) /\ act' = NoW

StartCompile(sp, type, lb) ==
  /\ inp' = [type |-> type, width |-> width, best_lb |-> lb, root |-> sp, q0 |-> QOf(sp)]
  /\ nodes' = (KeyN(1, QOf(sp)) :> NewNode(QOf(sp), sp.value, TRUE, sp.depth))
  /\ nextL' = {KeyN(1, QOf(sp))} /\ edges' = {} /\ layers' = <<>> /\ lel' = 0 /\ pc' = "loop" /\ res' = <<>> /\ maxExpanded' = <<>>
\* process_one_node, first lines: best_lb read in its own critical section
Lb1Skip(w) == /\ wk[w].phase = "lb1" /\ wk[w].cur.ub <= P.bestLb
              /\ wk' = [wk EXCEPT ![w].phase = "finish"]
              /\ (IF act = w THEN Release ELSE DDUnchanged /\ UNCHANGED act)
              /\ UNCHANGED <<P, cacheT>> /\ Fixed
Lb1(w) == /\ wk[w].phase = "lb1" /\ act = w /\ wk[w].cur.ub > P.bestLb
          /\ StartCompile(wk[w].cur, "restricted", P.bestLb)
          /\ wk' = [wk EXCEPT ![w].phase = "dd"]
          /\ UNCHANGED <<P, cacheT, act>> /\ Fixed
Lb2(w) == /\ wk[w].phase = "lb2" /\ act = w
          /\ StartCompile(wk[w].cur, "relaxed", P.bestLb)
          /\ wk' = [wk EXCEPT ![w].phase = "dd"]
          /\ UNCHANGED <<P, cacheT, act>> /\ Fixed
\* one layer / the finalisation of w's diagram
DDStep(w) == /\ wk[w].phase = "dd" /\ act = w /\ pc # "done"
             /\ (Layer \/ EndLoop \/ Finalize)
             /\ UNCHANGED pvars
RECURSIVE ApplyUpdates(_, _)
ApplyUpdates(t, us) == IF us = {} THEN t ELSE LET u == CHOOSE x \in us : TRUE IN ApplyUpdates(CUpd(t, u.d, u.st, <<u.v, u.e>>), us \ {u})
\* _compute_thresholds publishes the thresholds of the finished diagram (outside any critical section)
Publish(w) == /\ wk[w].phase = "dd" /\ act = w /\ pc = "done"
              /\ P' = [P EXCEPT !.table = ApplyUpdates(P.table, res.cu)] /\ cacheT' = P'.table
              /\ wk' = [wk EXCEPT ![w].phase = "upd", ![w].part = FALSE, ![w].out = [type |-> inp.type, exact |-> res.exact, bev |-> res.bev, cs |-> res.cs]]
              /\ Release /\ Fixed
\* publication in progress: the thresholds of the layers at depth >= L are visible, the others not yet (at most once per diagram)
PublishPart(w) == /\ PartialPublish /\ wk[w].phase = "dd" /\ act = w /\ pc = "done" /\ ~wk[w].part
                  /\ \E L \in {u.d : u \in res.cu} :
                       /\ \E u \in res.cu : u.d < L
                       /\ P' = [P EXCEPT !.table = ApplyUpdates(P.table, {u \in res.cu : u.d >= L})]
                  /\ cacheT' = P'.table
                  /\ wk' = [wk EXCEPT ![w].part = TRUE]
                  /\ DDUnchanged /\ UNCHANGED act /\ Fixed
\* maybe_update_best
Upd(w) == /\ wk[w].phase = "upd"
          /\ P' = PUpdate(P, wk[w].out.bev)
          /\ wk' = [wk EXCEPT ![w].phase = IF wk[w].out.type = "restricted" THEN (IF wk[w].out.exact THEN "finish" ELSE "lb2")
                                           ELSE (IF wk[w].out.exact THEN "finish" ELSE "enq")]
          /\ UNCHANGED <<cacheT, act>> /\ DDUnchanged /\ Fixed
RECURSIVE PushAll(_, _)
PushAll(f, X) == IF X = {} THEN f ELSE LET x == CHOOSE y \in X : TRUE IN PushAll(FPush(Kind, f, Item(x)), X \ {x})
RECURSIVE PushCount(_, _, _)
PushCount(f, X, open) == IF X = {} THEN open
                         ELSE LET x == CHOOSE y \in X : TRUE  f2 == FPush(Kind, f, Item(x)) IN
                              PushCount(f2, X \ {x}, [open EXCEPT ![x.depth] = open[x.depth] + FLen(f2) - FLen(f)])
Enq(w) == /\ wk[w].phase = "enq"
          /\ LET ub == wk[w].cur.ub
                 keep == {[c EXCEPT !.ub = Min2(ub, c.ub)] : c \in {x \in wk[w].out.cs : Min2(ub, x.ub) > P.bestLb}} IN
             P' = [P EXCEPT !.fringe = PushAll(P.fringe, keep), !.open = PushCount(P.fringe, keep, P.open)]
          /\ wk' = [wk EXCEPT ![w].phase = "finish"]
          /\ UNCHANGED <<cacheT, act>> /\ DDUnchanged /\ Fixed
\* notify_node_finished: notify_all wakes every parked worker
Finish(w) == /\ wk[w].phase = "finish"
             /\ P' = PFinish(P, w, wk[w].cur.depth)
             /\ wk' = [v \in W |-> IF v = w THEN [wk[v] EXCEPT !.phase = "get", !.cur = NoCur, !.out = NoOut]
                                   ELSE IF wk[v].phase = "parked" THEN [wk[v] EXCEPT !.phase = "get"] ELSE wk[v]]
             /\ UNCHANGED <<cacheT, act>> /\ DDUnchanged /\ Fixed
AllExit == \A w \in W : wk[w].phase = "exit"
PCNext == \/ \E w \in W : Get(w) \/ Switch(w) \/ Lb1Skip(w) \/ Lb1(w) \/ Lb2(w) \/ DDStep(w) \/ PublishPart(w) \/ Publish(w) \/ Upd(w) \/ Enq(w) \/ Finish(w)
          \/ (AllExit /\ UNCHANGED allvars)
PCSpec == PCInit /\ [][PCNext]_allvars

\* ---- the properties
OptI == Opt(I, HT)
Live(n) == SpOpt(I, HT, n) = OptI /\ n.ub > P.bestLb /\ MustExplore(P.table, n)
InProgress(w) == wk[w].phase \in {"lb1", "dd", "upd", "lb2", "enq"}
\* C09: while the incumbent is not optimal, an optimal completion is still reachable: through an open node that neither the
\* bound nor the cache rejects, or through a node some worker is processing
C09_RouteExists == (P.bestLb < OptI /\ ~AllExit) =>
                      \/ \E w \in W : InProgress(w) /\ SpOpt(I, HT, wk[w].cur) = OptI
                      \/ \E x \in BagToSet(P.fringe) : Live([st |-> x.st, depth |-> x.depth, value |-> x.value, ub |-> x.ub])
C03_SameAnswer == AllExit => P.bestLb = OptI /\ P.bestUb = OptI
LbSound == P.bestLb <= OptI
\* C04: never everybody parked or gone while somebody is parked; completion only when nothing is left
C04_NoLostWakeup == (\E w \in W : wk[w].phase = "parked") => \E v \in W : wk[v].phase \notin {"parked", "exit"}
C04_CompleteOnlyWhenIdle == (\E w \in W : wk[w].phase = "exit") => P.ongoing = 0 /\ P.fringe = EmptyBag
CacheTInSync == cacheT = P.table
RECURSIVE CountIn(_)
CountIn(X) == IF X = {} THEN 0 ELSE LET x == CHOOSE y \in X : TRUE IN CopiesIn(x, P.fringe) + CountIn(X \ {x})
Counters == /\ P.ongoing = Cardinality({w \in W : wk[w].phase \in {"lb1", "dd", "upd", "lb2", "enq", "finish"}})
            /\ \A d \in 0..N : P.open[d] = CountIn({x \in BagToSet(P.fringe) : x.depth = d})
Sym == Permutations(W)
=============================================================================
