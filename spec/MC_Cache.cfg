SPECIFICATION Spec
CONSTANTS States = {"a", "b"} Depths = {0, 1} Values = {0, 1, 2} MaxOps = 5 Hist = TRUE
INVARIANTS C18_Read
PROPERTIES C18_Isolation C18_Monotone
CHECK_DEADLOCK FALSE
