SPECIFICATION Spec
CONSTANTS KStates = {1, 2, 3, 4} KDepths = {0, 1} Values = {0, 1, 2} Ubs = {1, 2, 3} MaxSize = 7 MaxOps = 16
INVARIANTS HeapInv PosInv StatesInv DenseInv ContentsInv PathInv C11_PopIsMax C11_Len
CHECK_DEADLOCK FALSE
