---------------------------- MODULE ParCounters ----------------------------
(* Counter abstraction of the parallel protocol (solver/parallel.rs): the fringe is a number of  *)
(* open nodes, compilations are invisible, a working node may enqueue any number of nodes.  The  *)
(* number of nodes is UNBOUNDED.  Apalache discharges the inductive invariant IndInv (Init =>    *)
(* IndInv, IndInv /\ Next => IndInv'), which contains the no-lost-wake-up invariant of C04: a    *)
(* worker is parked only while some node is in progress -- whose worker will notify_all.         *)
(* TLC checks that MC_ParBnB refines this abstraction (MC_ParBnB_abs.cfg).                       *)
EXTENDS Integers, FiniteSets
CONSTANT
  \* @type: Set(Str);
  Workers
VARIABLES
  \* @type: Int;
  f,
  \* @type: Int;
  ongoing,
  \* @type: Str -> Str;
  pc,
  \* @type: Bool;
  abort
vars == <<f, ongoing, pc, abort>>
Working == {w \in Workers : pc[w] = "work"}
Init == f = 1 /\ ongoing = 0 /\ pc = [w \in Workers |-> "get"] /\ abort = FALSE
GetAborted(w) == pc[w] = "get" /\ abort /\ pc' = [pc EXCEPT ![w] = "exited"] /\ UNCHANGED <<f, ongoing, abort>>
GetComplete(w) == pc[w] = "get" /\ ~abort /\ ongoing = 0 /\ f = 0 /\ pc' = [pc EXCEPT ![w] = "exited"] /\ UNCHANGED <<f, ongoing, abort>>
GetWait(w) == pc[w] = "get" /\ ~abort /\ f = 0 /\ ongoing > 0 /\ pc' = [pc EXCEPT ![w] = "parked"] /\ UNCHANGED <<f, ongoing, abort>>
\* pop: the node is taken, or it (and possibly the rest of the fringe) is discarded: bound cannot improve / cache says no
GetWork(w) == pc[w] = "get" /\ ~abort /\ f > 0 /\ f' = f - 1 /\ ongoing' = ongoing + 1 /\ pc' = [pc EXCEPT ![w] = "work"] /\ UNCHANGED abort
GetDiscard(w) == pc[w] = "get" /\ ~abort /\ f > 0 /\ (\E k \in 0..(f - 1) : f' = k) /\ UNCHANGED <<ongoing, pc, abort>>
Enqueue(w) == pc[w] = "work" /\ (\E k \in 0..4 : f' = f + k) /\ UNCHANGED <<ongoing, pc, abort>>
\* notify_node_finished: everybody parked is woken; after an abort the finishing worker may leave at once (the aborting one does)
Finish(w) == /\ pc[w] = "work" /\ ongoing' = ongoing - 1
             /\ \E nxt \in (IF abort THEN {"get", "exited"} ELSE {"get"}) :
                  pc' = [v \in Workers |-> IF v = w THEN nxt ELSE IF pc[v] = "parked" THEN "get" ELSE pc[v]]
             /\ UNCHANGED <<f, abort>>
\* abort_search: the fringe is cleared, the flag raised (the worker then goes through Finish)
Abort(w) == pc[w] = "work" /\ abort' = TRUE /\ f' = 0 /\ UNCHANGED <<ongoing, pc>>
Step(w) == GetAborted(w) \/ GetComplete(w) \/ GetWait(w) \/ GetWork(w) \/ GetDiscard(w) \/ Enqueue(w) \/ Finish(w) \/ Abort(w)
Next == (\E w \in Workers : Step(w)) \/ UNCHANGED vars
TypeOK == f \in Int /\ f >= 0 /\ ongoing \in Int /\ pc \in [Workers -> {"get", "work", "parked", "exited"}] /\ abort \in BOOLEAN
Acc_Ongoing == ongoing = Cardinality(Working)
C04_NoLostWakeup == \A w \in Workers : pc[w] = "parked" => ongoing > 0
\* complete only when nothing is open or in progress, and nothing re-opens afterwards
C04_CompleteMeansDone == (\E w \in Workers : pc[w] = "exited") /\ ~abort => f = 0 /\ ongoing = 0
\* a worker that exited because of an abort: the abort flag stays
IndInv == TypeOK /\ Acc_Ongoing /\ C04_NoLostWakeup /\ C04_CompleteMeansDone
IndInit == IndInv
\* deadlock freedom follows from IndInv: if somebody is parked somebody works (Finish enabled); a worker at "get" always has an enabled step
C04_NoDeadlock == (\E w \in Workers : pc[w] # "exited") => \E w \in Workers : pc[w] \in {"get", "work"}
=============================================================================
