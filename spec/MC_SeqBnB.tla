----------------------------- MODULE MC_SeqBnB -----------------------------
(* Generative model of the sequential branch-and-bound loop (solver/sequential.rs) built on     *)
(* SeqBnB.tla's operators, compile outcomes drawn from the DD contract over an abstract search   *)
(* tree (every contract-abiding outcome: any feasible restricted value, any sound cut-set        *)
(* bounds).  The cutoff starts answering `stop` at poll number cutAt (chosen in Init, NoCut =     *)
(* never), so every cutoff point of every behaviour is explored; a warm-start primal is chosen   *)
(* in Init as well.  C01, C02 (value side), C05, C14, C19 are stated on the model itself.        *)
EXTENDS SeqBnB
CONSTANTS TreeId, MaxPolls, PrimalVals
Primals0 == {-1000000} \cup PrimalVals
Trees == <<
  [n \in 1..6 |-> CASE n = 1 -> [depth |-> 0, ropt |-> 9, kids |-> {2, 3}]
                    [] n = 2 -> [depth |-> 1, ropt |-> 9, kids |-> {4, 5}]
                    [] n = 3 -> [depth |-> 1, ropt |-> 7, kids |-> {6}]
                    [] n = 4 -> [depth |-> 2, ropt |-> 9, kids |-> {}]
                    [] n = 5 -> [depth |-> 2, ropt |-> 5, kids |-> {}]
                    [] n = 6 -> [depth |-> 2, ropt |-> 7, kids |-> {}]],
  [n \in 1..7 |-> CASE n = 1 -> [depth |-> 0, ropt |-> 7, kids |-> {2, 3}]
                    [] n = 2 -> [depth |-> 1, ropt |-> 7, kids |-> {4}]
                    [] n = 3 -> [depth |-> 1, ropt |-> 7, kids |-> {5}]
                    [] n = 4 -> [depth |-> 2, ropt |-> 7, kids |-> {6, 7}]
                    [] n = 5 -> [depth |-> 2, ropt |-> 7, kids |-> {}]
                    [] n = 6 -> [depth |-> 3, ropt |-> 7, kids |-> {}]
                    [] n = 7 -> [depth |-> 3, ropt |-> NegInf, kids |-> {}]],
  [n \in 1..3 |-> CASE n = 1 -> [depth |-> 0, ropt |-> NegInf, kids |-> {2, 3}]
                    [] n = 2 -> [depth |-> 1, ropt |-> NegInf, kids |-> {}]
                    [] n = 3 -> [depth |-> 1, ropt |-> NegInf, kids |-> {}]]
>>
Tree == Trees[TreeId]
Nodes == DOMAIN Tree
MaxDepth == 3
OptT == Tree[1].ropt
NoCut == MaxPolls + 1
Vals == {NegInf} \cup {Tree[n].ropt : n \in Nodes} \cup {3}
Ubs == ({Tree[n].ropt : n \in Nodes} \ {NegInf}) \cup {10}
NodeItem(n, ub) == [st |-> n, depth |-> Tree[n].depth, value |-> 0, ub |-> ub, paths |-> {<<>>}]
NoNode == [st |-> 0, depth |-> 0, value |-> 0, ub |-> NegInf, paths |-> {}]

VARIABLES S, pc, cur, lb, out, polls, cutAt, primal, prevLb, prevUb
vars == <<S, pc, cur, lb, out, polls, cutAt, primal, prevLb, prevUb>>
Init == /\ primal \in (Primals0 \cup PrimalVals) /\ cutAt \in 1..NoCut
        /\ S = SPrimal(SInit("simple", [st |-> 1, depth |-> 0, value |-> 0, ub |-> PosInf, path |-> <<>>], MaxDepth), primal)
        /\ pc = "get" /\ cur = NoNode /\ lb = NegInf /\ out = [exact |-> TRUE, val |-> NegInf, cs |-> {}] /\ polls = 0
        /\ prevLb = NegInf /\ prevUb = PosInf
Keep == UNCHANGED <<cutAt, primal>>
\* get_workload
Complete == /\ pc = "get" /\ SClean(S, MaxDepth).fringe = EmptyBag /\ S' = SComplete(SClean(S, MaxDepth)) /\ pc' = "returned"
            /\ UNCHANGED <<cur, lb, out, polls, prevLb, prevUb>> /\ Keep
Pop == /\ pc = "get" /\ SClean(S, MaxDepth).fringe # EmptyBag
       /\ \E x \in Poppable(SClean(S, MaxDepth).fringe) : S' = SPop(SClean(S, MaxDepth), x) /\ cur' = x
       /\ pc' = "restrict" /\ lb' = S.bestLb /\ UNCHANGED <<out, polls, prevLb, prevUb>> /\ Keep
\* a compilation of a non-leaf node polls the cutoff once (per layer in the code: one abstract poll here)
HasPoll(n) == Tree[n].kids # {}
\* what would be reported if the cutoff fired at this poll: the anytime bounds of C19
Poll == /\ polls' = polls + 1 /\ prevLb' = S.bestLb /\ prevUb' = S.bestUb
SkipNode == /\ pc = "restrict" /\ cur.ub <= S.bestLb /\ pc' = "get" /\ UNCHANGED <<S, cur, lb, out, polls, prevLb, prevUb>> /\ Keep
CRestrict == /\ pc = "restrict" /\ cur.ub > S.bestLb
             /\ LET n == cur.st  ro == Tree[n].ropt IN
                IF HasPoll(n) /\ polls + 1 >= cutAt
                THEN /\ Poll /\ S' = SAbort(S) /\ pc' = "returned" /\ UNCHANGED <<cur, lb, out>>
                ELSE /\ \E ex \in BOOLEAN, v \in Vals :
                          /\ v <= ro /\ (Tree[n].kids = {} => ex) /\ (ex /\ ro > S.bestLb => v = ro)
                          /\ out' = [exact |-> ex, val |-> v, cs |-> {}]
                          /\ S' = SUpdate(S, v)
                          /\ pc' = IF ex THEN "get" ELSE "relax"
                     /\ (IF HasPoll(n) THEN Poll ELSE UNCHANGED <<polls, prevLb, prevUb>>) /\ UNCHANGED <<cur, lb>>
             /\ Keep
RECURSIVE PushAll(_, _)
PushAll(f, X) == IF X = {} THEN f ELSE LET x == CHOOSE y \in X : TRUE IN PushAll(FPush("simple", f, x), X \ {x})
CRelax == /\ pc = "relax"
          /\ LET n == cur.st  ro == Tree[n].ropt IN
             IF HasPoll(n) /\ polls + 1 >= cutAt
             THEN /\ Poll /\ S' = SAbort(S) /\ pc' = "returned" /\ UNCHANGED <<cur, lb, out>>
             ELSE /\ \/ /\ S' = SUpdate(S, IF ro > S.bestLb THEN ro ELSE NegInf) /\ out' = [exact |-> TRUE, val |-> NegInf, cs |-> {}]     \* proved
                     \/ /\ Tree[n].kids # {}
                        /\ \E f \in [Tree[n].kids -> Ubs] :
                             /\ \A k \in Tree[n].kids : Tree[k].ropt > S.bestLb => f[k] >= Tree[k].ropt
                             /\ LET keep == {NodeItem(k, Min2(f[k], cur.ub)) : k \in {j \in Tree[n].kids : Min2(f[j], cur.ub) > S.bestLb}} IN
                                S' = [S EXCEPT !.fringe = PushAll(S.fringe, keep),
                                               !.open = [d \in DOMAIN S.open |-> S.open[d] + Cardinality({c \in keep : c.depth = d})]]
                             /\ out' = [exact |-> FALSE, val |-> NegInf, cs |-> {}]
                  /\ pc' = "get"
                  /\ (IF HasPoll(n) THEN Poll ELSE UNCHANGED <<polls, prevLb, prevUb>>) /\ UNCHANGED <<cur, lb>>
          /\ Keep
Next == Complete \/ Pop \/ SkipNode \/ CRestrict \/ CRelax \/ (pc = "returned" /\ UNCHANGED vars)
Spec == Init /\ [][Next]_vars /\ WF_vars(Next)

Goal == Max2(OptT, primal)
Returned == pc = "returned"
C01_Optimal == Returned /\ ~S.abort => S.bestLb = Goal /\ S.bestUb = Goal            \* C14 when primal # NegInf
C01_Terminates == <>Returned
C05_BoundsSound == Returned => S.bestLb <= Goal /\ Goal <= S.bestUb
C05_ExactTruthful == Returned /\ ~S.abort => S.bestLb = Goal
\* C19: between two consecutive polls the bounds that a cutoff would report never get worse
C19_Monotone == [][polls' > polls => S.bestLb >= prevLb /\ (S.bestUb <= prevUb \/ polls = 0)]_vars
C19_Eventually == cutAt = NoCut /\ Returned => ~S.abort
Acc_Open == S.abort \/ \A d \in DOMAIN S.open : S.open[d] = Cardinality({x \in BagToSet(S.fringe) : x.depth = d})
PopsNonIncreasing == [][(pc = "get" /\ pc' = "restrict") => cur'.ub <= S.bestUb \/ S.bestUb = PosInf]_vars
=============================================================================
