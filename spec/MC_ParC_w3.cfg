SPECIFICATION PCSpec
CONSTANTS Widths = {1, 2} Cuts = {"lel", "fc"} W = {w1, w2, w3} NoW = NoW Kind = "simple" PartialPublish = FALSE Variant = "none"
SYMMETRY Sym
INVARIANTS C09_RouteExists C03_SameAnswer LbSound C04_NoLostWakeup C04_CompleteOnlyWhenIdle CacheTInSync Counters
