SPECIFICATION Spec
CONSTANTS Widths = {1, 2} Cuts = {"lel", "fc"}
INVARIANTS Contract Emit
CHECK_DEADLOCK FALSE
