SPECIFICATION PSpec
CONSTANTS Widths = {1, 2} Cuts = {"fc"}
INVARIANTS ContractButD5 C13_Width C12_Arcs
CHECK_DEADLOCK FALSE
