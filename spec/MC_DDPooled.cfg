SPECIFICATION PSpec
CONSTANTS Widths = {1, 2} Cuts = {"fc"} Repaired = TRUE
INVARIANTS PContract C13_Width C12_Arcs
CHECK_DEADLOCK FALSE
