----------------------------- MODULE MC_ParBnB -----------------------------
(* Generative model of the parallel branch-and-bound protocol (solver/parallel.rs after the     *)
(* repairs of D3/D4), built on ParBnB.tla's operators.  One action per critical section or       *)
(* blocking point of a worker; the non-critical compilations are separate actions so that TLC    *)
(* interleaves other workers' critical sections with them.  Compile outcomes are drawn from the  *)
(* DD contract over an abstract search tree (assume/guarantee): a restricted compilation yields  *)
(* any feasible value <= the best completion through the node, a relaxed one either proves the   *)
(* node (exact) or hands out its children with any sound upper bounds.  Det = TRUE keeps one     *)
(* outcome per (node, incumbent) (small graphs, used for schedule generation).                   *)
EXTENDS ParBnB
CONSTANTS NSpawn, TreeId, Det, WithCutoff,
          Variant     \* "code" = the code as it is; "d4a", "notify_one", "no_ongoing" = seeded model mutations used to show that the properties bite (selftest only)
\* abstract search trees: node -> [depth, ropt (best complete value through it, NegInf if none), kids]
Trees == <<
  [n \in 1..6 |-> CASE n = 1 -> [depth |-> 0, ropt |-> 9, kids |-> {2, 3}]
                    [] n = 2 -> [depth |-> 1, ropt |-> 9, kids |-> {4, 5}]
                    [] n = 3 -> [depth |-> 1, ropt |-> 7, kids |-> {6}]
                    [] n = 4 -> [depth |-> 2, ropt |-> 9, kids |-> {}]
                    [] n = 5 -> [depth |-> 2, ropt |-> 5, kids |-> {}]
                    [] n = 6 -> [depth |-> 2, ropt |-> 7, kids |-> {}]],
  \* a chain with a dead branch and a tie
  [n \in 1..5 |-> CASE n = 1 -> [depth |-> 0, ropt |-> 7, kids |-> {2, 3}]
                    [] n = 2 -> [depth |-> 1, ropt |-> 7, kids |-> {4}]
                    [] n = 3 -> [depth |-> 1, ropt |-> 7, kids |-> {5}]
                    [] n = 4 -> [depth |-> 2, ropt |-> 7, kids |-> {}]
                    [] n = 5 -> [depth |-> 2, ropt |-> 7, kids |-> {}]],
  \* infeasible problem
  [n \in 1..3 |-> CASE n = 1 -> [depth |-> 0, ropt |-> NegInf, kids |-> {2, 3}]
                    [] n = 2 -> [depth |-> 1, ropt |-> NegInf, kids |-> {}]
                    [] n = 3 -> [depth |-> 1, ropt |-> NegInf, kids |-> {}]]
>>
Tree == Trees[TreeId]
Nodes == DOMAIN Tree
Root == 1
MaxDepth == 2
OptT == Tree[Root].ropt
Workers == 1..NSpawn
Vals == {NegInf} \cup {Tree[n].ropt : n \in Nodes} \cup {3}          \* 3: a sub-optimal feasible value
Ubs == ({Tree[n].ropt : n \in Nodes} \ {NegInf}) \cup {10}
NodeItem(n, ub) == [st |-> n, depth |-> Tree[n].depth, value |-> 0, ub |-> ub, paths |-> {<<>>}]
NoNode == [st |-> 0, depth |-> 0, value |-> 0, ub |-> NegInf, paths |-> {}]

WK(cr) == IF Variant = "d4a" THEN (IF cr.ongoing = 0 /\ cr.fringe = EmptyBag THEN "complete" ELSE IF cr.abort THEN "aborted" ELSE IF cr.fringe = EmptyBag THEN "wait" ELSE "pop")
         ELSE IF Variant = "no_ongoing" THEN (IF cr.abort THEN "aborted" ELSE IF cr.fringe = EmptyBag THEN "complete" ELSE "pop")
         ELSE PWorkloadKind(cr)
VARIABLES P, pc, node, lbSeen, out, parked, stop
vars == <<P, pc, node, lbSeen, out, parked, stop>>
Init == /\ P = PInit("simple", [st |-> Root, depth |-> 0, value |-> 0, ub |-> PosInf, path |-> <<>>], MaxDepth, Workers)
        /\ pc = [w \in Workers |-> "get"] /\ node = [w \in Workers |-> NoNode]
        /\ lbSeen = [w \in Workers |-> NegInf] /\ out = [w \in Workers |-> [exact |-> TRUE, val |-> NegInf, cs |-> {}]]
        /\ parked = {} /\ stop = FALSE
U(w) == UNCHANGED <<lbSeen, out, stop>>

\* ---- get_workload: one critical section, several outcomes
GW_Aborted(w) == /\ pc[w] = "get" /\ WK(PClean(P, MaxDepth)) = "aborted"
                 /\ P' = PClean(P, MaxDepth) /\ pc' = [pc EXCEPT ![w] = "exited"] /\ UNCHANGED <<node, parked>> /\ U(w)
GW_Complete(w) == /\ pc[w] = "get" /\ WK(PClean(P, MaxDepth)) = "complete"
                  /\ P' = PComplete(PClean(P, MaxDepth)) /\ pc' = [pc EXCEPT ![w] = "exited"] /\ UNCHANGED <<node, parked>> /\ U(w)
GW_Wait(w) == /\ pc[w] = "get" /\ WK(PClean(P, MaxDepth)) = "wait"
              /\ P' = PClean(P, MaxDepth) /\ parked' = parked \cup {w} /\ pc' = [pc EXCEPT ![w] = "parked"] /\ UNCHANGED node /\ U(w)
GW_Pop(w) == /\ pc[w] = "get" /\ WK(PClean(P, MaxDepth)) = "pop"
             /\ LET P1 == PClean(P, MaxDepth) IN
                \E x \in Poppable(P1.fringe) :
                   IF x.ub <= P1.bestLb
                   THEN /\ P' = PClearedAll(PPopped(P1, x), MaxDepth) /\ UNCHANGED <<pc, node>>          \* Starvation: try again
                   ELSE /\ P' = PWork(PPopped(P1, x), w, x) /\ node' = [node EXCEPT ![w] = x]
                        /\ pc' = [pc EXCEPT ![w] = "lb1"]
             /\ UNCHANGED parked /\ U(w)
ReadLb(w, from, to) == /\ pc[w] = from /\ lbSeen' = [lbSeen EXCEPT ![w] = P.bestLb] /\ pc' = [pc EXCEPT ![w] = to]
                       /\ UNCHANGED <<P, node, out, parked, stop>>
\* ---- compilations (outside the lock); a leaf sub-problem compiles without polling the cutoff
HasPoll(n) == Tree[n].kids # {}
Skip(w) == /\ pc[w] = "restrict" /\ node[w].ub <= lbSeen[w] /\ pc' = [pc EXCEPT ![w] = "finish"]
           /\ UNCHANGED <<P, node, lbSeen, out, parked, stop>>
CRestrict(w) == /\ pc[w] = "restrict" /\ node[w].ub > lbSeen[w]
                /\ LET n == node[w].st  ro == Tree[n].ropt IN
                   IF stop /\ HasPoll(n) THEN pc' = [pc EXCEPT ![w] = "abort"] /\ out' = out
                   ELSE \E ex \in BOOLEAN, v \in Vals :
                         /\ v <= ro
                         /\ (Tree[n].kids = {} => ex)
                         /\ (ex /\ ro > lbSeen[w] => v = ro)
                         /\ (Det => ex = (Tree[n].kids = {}) /\ v = (IF ex THEN (IF ro > lbSeen[w] THEN ro ELSE NegInf) ELSE (IF ro >= 7 THEN 5 ELSE IF ro > NegInf THEN 3 ELSE NegInf)))
                         /\ out' = [out EXCEPT ![w] = [exact |-> ex, val |-> v, cs |-> {}]]
                         /\ pc' = [pc EXCEPT ![w] = "upd1"]
                /\ UNCHANGED <<P, node, lbSeen, parked, stop>>
Update(w, from) == /\ pc[w] = from /\ P' = PUpdate(P, out[w].val)
                   /\ pc' = [pc EXCEPT ![w] = IF out[w].exact THEN "finish" ELSE IF from = "upd1" THEN "lb2" ELSE "enqueue"]
                   /\ UNCHANGED <<node, lbSeen, out, parked, stop>>
CRelax(w) == /\ pc[w] = "relax"
             /\ LET n == node[w].st  ro == Tree[n].ropt IN
                IF stop /\ HasPoll(n) THEN pc' = [pc EXCEPT ![w] = "abort"] /\ out' = out
                ELSE \/ /\ (Det => Tree[n].kids = {})
                        /\ out' = [out EXCEPT ![w] = [exact |-> TRUE, cs |-> {}, val |-> IF ro > lbSeen[w] THEN ro ELSE NegInf]]
                        /\ pc' = [pc EXCEPT ![w] = "upd2"]
                     \/ /\ Tree[n].kids # {}
                        /\ \E f \in [Tree[n].kids -> Ubs] :
                             /\ \A k \in Tree[n].kids : Tree[k].ropt > lbSeen[w] => f[k] >= Tree[k].ropt
                             /\ (Det => \A k \in Tree[n].kids : f[k] = IF Tree[k].ropt = NegInf THEN 10 ELSE Tree[k].ropt)
                             /\ out' = [out EXCEPT ![w] = [exact |-> FALSE, val |-> NegInf, cs |-> {NodeItem(k, f[k]) : k \in Tree[n].kids}]]
                        /\ pc' = [pc EXCEPT ![w] = "upd2"]
             /\ UNCHANGED <<P, node, lbSeen, parked, stop>>
RECURSIVE PushAll(_, _)
PushAll(f, S) == IF S = {} THEN f ELSE LET x == CHOOSE y \in S : TRUE IN PushAll(FPush("simple", f, x), S \ {x})
Enqueue(w) == /\ pc[w] = "enqueue"
              /\ LET keep == {[c EXCEPT !.ub = Min2(c.ub, node[w].ub)] : c \in {d \in out[w].cs : Min2(d.ub, node[w].ub) > P.bestLb}} IN
                 P' = [P EXCEPT !.fringe = PushAll(P.fringe, keep),
                                !.open = [d \in DOMAIN P.open |-> P.open[d] + Cardinality({c \in keep : c.depth = d})]]
              /\ pc' = [pc EXCEPT ![w] = "finish"] /\ UNCHANGED <<node, lbSeen, out, parked, stop>>
Abort(w) == /\ pc[w] = "abort" /\ P' = PAbort(P, w, node[w].ub) /\ pc' = [pc EXCEPT ![w] = "finishA"]
            /\ UNCHANGED <<node, lbSeen, out, parked, stop>>
\* notify_node_finished: wakes every parked worker (notify_all)
Finish(w) == /\ pc[w] \in {"finish", "finishA"} /\ P' = PFinish(P, w, node[w].depth)
             /\ \E woken \in (IF Variant = "notify_one" /\ parked # {} THEN {{p} : p \in parked} ELSE {parked}) :
                  /\ pc' = [p \in Workers |-> IF p = w THEN (IF pc[w] = "finishA" THEN "exited" ELSE "get") ELSE IF p \in woken THEN "get" ELSE pc[p]]
                  /\ parked' = parked \ woken
             /\ node' = [node EXCEPT ![w] = NoNode] /\ UNCHANGED <<lbSeen, out, stop>>
CutoffFires == /\ WithCutoff /\ ~stop /\ stop' = TRUE /\ UNCHANGED <<P, pc, node, lbSeen, out, parked>>
Step(w) == \/ GW_Aborted(w) \/ GW_Complete(w) \/ GW_Wait(w) \/ GW_Pop(w)
           \/ ReadLb(w, "lb1", "restrict") \/ ReadLb(w, "lb2", "relax")
           \/ Skip(w) \/ CRestrict(w) \/ Update(w, "upd1") \/ CRelax(w) \/ Update(w, "upd2")
           \/ Enqueue(w) \/ Abort(w) \/ Finish(w)
AllExited == \A w \in Workers : pc[w] = "exited"
Next == (\E w \in Workers : Step(w)) \/ CutoffFires \/ (AllExited /\ UNCHANGED vars)
Spec == Init /\ [][Next]_vars /\ \A w \in Workers : WF_vars(Step(w))

\* ---- properties
C03_Optimal == AllExited /\ ~P.abort => P.bestLb = OptT /\ P.bestUb = OptT
C05_BoundsSound == AllExited => P.bestLb <= OptT /\ OptT <= P.bestUb
C05_ExactTruthful == AllExited /\ ~P.abort => P.bestLb = OptT
C04_CompleteOnlyWhenIdle == [][\A w \in Workers : (pc'[w] = "exited" /\ pc[w] = "get" /\ ~P.abort) => P.ongoing = 0 /\ P.fringe = EmptyBag]_vars
C04_NeverWaitWhenIdle == \A w \in parked : P.ongoing > 0
C04_Termination == <>AllExited
\* accounting lemmas the arguments rest on
InFlight == {w \in Workers : pc[w] \notin {"get", "parked", "exited"}}
Acc_Ongoing == P.ongoing = Cardinality(InFlight)
Acc_Open == \A d \in DOMAIN P.open : P.open[d] = Cardinality({x \in BagToSet(P.fringe) : x.depth = d}) \/ P.abort
Acc_UbVec == \A w \in Workers : (w \in InFlight) = (P.ubVec[w] # Idle \/ node[w].ub = PosInf)
\* ---- refinement of the counter abstraction whose inductive invariant Apalache discharges for an unbounded number of nodes
AbsPc == [w \in Workers |-> IF pc[w] \in {"get", "parked", "exited"} THEN pc[w] ELSE "work"]
Abs == INSTANCE ParCounters WITH Workers <- Workers, f <- FLen(P.fringe), ongoing <- P.ongoing, pc <- AbsPc, abort <- P.abort
RefinesCounters == [][Abs!Next]_<<FLen(P.fringe), P.ongoing, AbsPc, P.abort>>
\* the C09-style route invariant of the protocol itself: the optimum is found or still reachable through an open / in-flight node
RouteExistsT == P.abort \/ P.bestLb = OptT
                \/ (\E x \in BagToSet(P.fringe) : Tree[x.st].ropt = OptT /\ x.ub > P.bestLb)
                \/ (\E w \in InFlight : Tree[node[w].st].ropt = OptT)
=============================================================================
